#!/bin/bash
# re-runs every stored seeded change against the current checks (updates meta.json); prints one line each
cd /verif
for d in seeded/*/; do
  id=$(basename $d)
  extra=$(/venv/bin/python -c "import json;m=json.load(open('$d/meta.json'));print(' '.join(m.get('checks',{}).keys()))" 2>/dev/null)
  out=$(./tools_seeded.py /verif/seeded/$id $extra 2>&1 | grep -v "^WARN" | tail -1)
  echo "$id :: $out"
done
