"""Self-tests of the machinery.

  ./check selftest determinism [C01 C02 ...] [--runs N]
      every listed property: the first N cases are executed in fresh interpreters under different
      PYTHONHASHSEED values and different worker placements; the per-case event-log digests must be identical.
  ./check selftest sensitivity [C01 ...]
      applies each mutant under /verif/mutants/<prop>-*.patch to a scratch copy of /repo/src and expects the
      property's quick tier to report a VIOLATION (exit 1).
"""
import glob
import os
import shutil
import subprocess
import sys
import tempfile

VERIF = os.path.dirname(os.path.dirname(os.path.abspath(__file__)))


def all_props():
    out = []
    for fn in sorted(os.listdir(os.path.join(VERIF, 'checks'))):
        if fn[0] == 'c' and fn[1:3].isdigit() and fn.endswith('.py'):
            out.append(fn[:3].upper())
    return out


def determinism(props, runs):
    bad = 0
    tmp = tempfile.mkdtemp(prefix='verif-det-')
    try:
        for prop in props:
            outs = []
            procs = []
            for k, hs in enumerate(('0', '1', '777')):
                f = os.path.join(tmp, f'{prop}-{k}.txt')
                env = dict(os.environ, VERIF_HASHSEED=hs)
                env.pop('VERIF_REEXEC', None)
                cmd = [os.path.join(VERIF, 'check'), prop, 'quick', '--digests', f, '--runs', str(runs)]
                if k == 2:
                    cmd = ['taskset', '-c', '1'] + cmd
                procs.append(subprocess.Popen(cmd, env=env, stdout=subprocess.DEVNULL, stderr=subprocess.DEVNULL))
                outs.append(f)
            for p in procs:
                p.wait()
            texts = [open(f).read() if os.path.exists(f) else f'missing {f}' for f in outs]
            nbad = sum(1 for line in texts[0].splitlines() if 'harness' in line)
            if texts[0] == texts[1] == texts[2] and texts[0].strip() and not nbad:
                print(f'determinism {prop}: OK ({len(texts[0].splitlines())} cases x 3 interpreters identical)')
            else:
                bad += 1
                print(f'determinism {prop}: MISMATCH or harness errors ({nbad})')
                a, b, c = (t.splitlines() for t in texts)
                for i in range(min(len(a), len(b), len(c))):
                    if not (a[i] == b[i] == c[i]):
                        print('  first difference:', a[i], '|', b[i], '|', c[i])
                        break
    finally:
        shutil.rmtree(tmp, ignore_errors=True)
    return 1 if bad else 0


def sensitivity(props):
    bad = 0
    for prop in props:
        for patch in sorted(glob.glob(os.path.join(VERIF, 'mutants', f'{prop}-*.patch'))):
            tmp = tempfile.mkdtemp(prefix='verif-mut-')
            try:
                shutil.copytree('/repo/src', os.path.join(tmp, 'src'))
                r = subprocess.run(['patch', '-p1', '-s', '-d', tmp, '-i', patch], capture_output=True, text=True)
                if r.returncode != 0:
                    print(f'sensitivity {os.path.basename(patch)}: PATCH DOES NOT APPLY {r.stdout} {r.stderr}')
                    bad += 1
                    continue
                env = dict(os.environ, VERIF_REPO_SRC=os.path.join(tmp, 'src'), VERIF_NO_EVIDENCE='1')
                env.pop('VERIF_REEXEC', None)
                tier = 'quick'
                if patch.endswith('.thorough.patch'):
                    # a change the quick tier is known not to reach (see DESIGN.md B.6): judged by the thorough tier, and only on request
                    if not os.environ.get('VERIF_SELFTEST_THOROUGH'):
                        print(f'sensitivity {os.path.basename(patch)}: skipped (thorough tier only; set VERIF_SELFTEST_THOROUGH=1)')
                        continue
                    tier = 'thorough'
                r = subprocess.run([os.path.join(VERIF, 'check'), prop, tier], env=env, capture_output=True, text=True)
                hit = [l for l in r.stdout.splitlines() if l.startswith('VIOLATION')]
                if r.returncode == 1 and hit:
                    print(f'sensitivity {os.path.basename(patch)}: caught ({len(hit)} signature(s))')
                else:
                    bad += 1
                    print(f'sensitivity {os.path.basename(patch)}: MISSED (exit {r.returncode})')
                    print('   ', r.stdout.strip().splitlines()[-1:] if r.stdout.strip() else r.stderr[-300:])
            finally:
                shutil.rmtree(tmp, ignore_errors=True)
    return 1 if bad else 0


def main(argv):
    if not argv:
        print(__doc__)
        return 2
    what = argv[0]
    rest = argv[1:]
    runs = 60
    if '--runs' in rest:
        i = rest.index('--runs')
        runs = int(rest[i + 1])
        rest = rest[:i] + rest[i + 2:]
    props = [p.upper() for p in rest] or all_props()
    if what == 'determinism':
        return determinism(props, runs)
    if what == 'sensitivity':
        return sensitivity(props)
    print(__doc__)
    return 2
