"""Fork-per-run worker pool, seed derivation, replay, minimiser, known-findings matching, evidence.

Process structure of one check invocation:

    main (warm: seams installed, mpservice + check module imported, single-threaded)
      +- runner k (forked from main, pinned to one core, never runs simulated code)
           +- one forked child per run: builds the Sim, runs the scenario, reports JSON, os._exit

Every run starts from the same memory image, which is what makes a run a pure function of
(code, scenario, sim cfg, decision list).
"""
import hashlib
import importlib
import json
import os
import random
import re
import select
import shutil
import signal
import sys
import tempfile
import time
import traceback

VERIF = os.path.dirname(os.path.dirname(os.path.abspath(__file__)))
REPO_SRC = os.environ.get('VERIF_REPO_SRC', '/repo/src')
RUN_WALL_LIMIT = 90.0  # real seconds per run before the watchdog kills it


# ------------------------------------------------------------------------------------------------
def derive_seed(base, prop, tier, i):
    h = hashlib.blake2b(f'{base}/{prop}/{i}'.encode(), digest_size=8).digest()
    return int.from_bytes(h, 'big') >> 1


def setup_early():
    """Install the stdlib seams before anything else imports threading-dependent modules."""
    if REPO_SRC not in sys.path:
        sys.path.insert(0, REPO_SRC)
    if VERIF not in sys.path:
        sys.path.insert(0, VERIF)
    from sim import core, threads
    threads.install()  # before asyncio / multiprocessing are imported: their threading.local subclasses must derive from ours
    from sim import osproc
    osproc.preinstall()  # os.getpid, before multiprocessing.util can be imported by anything
    from sim import aio
    aio.install()
    return core


def setup(needs):
    """Install the seams (before mpservice is imported) and import mpservice from REPO_SRC."""
    core = setup_early()
    from sim import threads, osproc
    if 'proc' in needs:
        osproc.install()
    import mpservice  # noqa
    assert os.path.abspath(mpservice.__file__).startswith(os.path.abspath(REPO_SRC)), mpservice.__file__
    if 'proc' in needs:
        osproc.install_post_import()
    # adversarial-but-legal object identity for every place mpservice keys state by id()
    import mpservice.mpserver._server as _srv
    import mpservice.socket as _sock
    import mpservice.threading as _mthr
    import mpservice.multiprocessing as _mmp
    threads.inject_id(_srv, _sock, _mthr, _mmp)
    core.enable_line_preemption([os.path.abspath(REPO_SRC) + '/mpservice/'])
    return core


def load_check(prop):
    setup_early()
    name = None
    d = os.path.join(VERIF, 'checks')
    for fn in sorted(os.listdir(d)):
        if fn.lower().startswith(prop.lower() + '_') and fn.endswith('.py'):
            name = fn[:-3]
    if name is None:
        raise SystemExit(f'no check module for {prop}')
    return importlib.import_module('checks.' + name)


# ------------------------------------------------------------------------------------------------
# one run (executed in a freshly forked child)
def _site_of(stack):
    """Innermost mpservice frame, else innermost harness frame, else innermost frame."""
    repo = os.path.abspath(REPO_SRC)
    for fn, ln, name in stack:
        if fn.startswith(repo):
            return os.path.basename(os.path.dirname(fn)) + '/' + os.path.basename(fn) + ':' + name
    for fn, ln, name in stack:
        if '/checks/' in fn:
            return 'harness:' + name
    for fn, ln, name in stack:
        return os.path.basename(fn) + ':' + name
    return '?'


def _exc_site(tb_text):
    """(is_library, site) from a formatted traceback: innermost frame under REPO_SRC wins."""
    repo = os.path.abspath(REPO_SRC)
    frames = re.findall(r'File "([^"]+)", line (\d+), in (\S+)', tb_text)
    for fn, ln, name in reversed(frames):
        if fn.startswith(repo):
            return True, os.path.basename(fn) + ':' + name
    return False, (os.path.basename(frames[-1][0]) + ':' + frames[-1][2]) if frames else '?'


def execute(check, case, trace=False):
    """Run one case in this process. Returns the result dict."""
    from sim import core, threads
    sc = case['scenario']
    cfg = case.get('sim') or {}
    sim = core.Sim(case['seed'], cfg, decisions=case.get('decisions'), trace=trace)
    threads.sim_id.reset()
    if getattr(check, 'NEEDS', None) and 'proc' in check.NEEDS:
        from sim import osproc
        osproc.start_kernel(sim, cfg)
    import logging
    recs = sim.logrecords = []

    class H(logging.Handler):
        def emit(self, r):
            try:
                msg = r.getMessage()
            except Exception:
                msg = str(r.msg)
            if r.exc_info:
                try:
                    msg += '\n' + ''.join(traceback.format_exception(*r.exc_info))[-1500:]
                except Exception:
                    pass
            recs.append((r.levelno, r.name, msg))

    root = logging.getLogger()
    for h in list(root.handlers):
        root.removeHandler(h)
    hh = H()
    hh.setLevel(logging.WARNING)
    root.addHandler(hh)
    box = {}

    def rootfn():
        box['obs'] = check.run(sim, sc)

    verdict = sim.run(rootfn)
    res = classify(check, sim, sc, verdict, box.get('obs'))
    if trace:
        res['trace'] = sim.trace
    return res


def classify(check, sim, sc, verdict, obs):
    vio = []  # (signature, detail)
    kind = verdict[0]
    cls = 'ok'
    report = None
    if kind in ('deadlock', 'no-progress'):
        report = sim.blocked_report()
        sites = sorted(set(_site_of(st) for (_i, _n, state, _w, st) in report if state != 'dead'))
        sig = kind + ':' + '|'.join(sites)
        hook = getattr(check, 'hang_signature', None)
        if hook is not None:
            try:
                sig = hook(kind, report, sig, sc) or sig
            except Exception:
                pass
        vio.append((sig,
                    {'blocked': [[i, n, s, w, [list(f) for f in st[:14]]] for (i, n, s, w, st) in report],
                     'vtime': sim.now - sim.t0}))
    elif kind == 'step-cap':
        cls = 'inconclusive'
    elif kind == 'root-exc':
        lib, site = _exc_site(verdict[2])
        if lib:
            vio.append((f'unexpected-exception:{verdict[1]}@{site}', {'traceback': verdict[2]}))
        else:
            cls = 'harness-error'
            report = verdict[2]
    post = getattr(check, 'post', None)
    if post is not None and cls != 'harness-error':
        try:
            post(sim, sc, verdict, obs)
        except Exception:
            cls = 'harness-error'
            report = traceback.format_exc()
    for sig, detail in sim.violations:
        vio.append((sig, detail))
    if getattr(check, 'THREAD_EXC_IS_VIOLATION', True):
        for idx, name, tname, text in sim.thread_excs:
            if idx == 0:
                continue
            lib, site = _exc_site(text)
            if lib:
                vio.append((f'thread-exception:{tname}@{site}', {'thread': name, 'traceback': text}))
            elif cls == 'ok' and not getattr(check, 'HARNESS_THREAD_EXC_OK', False):
                cls = 'harness-error'
                report = text
    if vio and cls != 'harness-error':
        cls = 'violation'
    if sim.harness_errors:
        # the harness itself made a programming error during this run: nothing it observed afterwards is believed
        cls = 'harness-error'
        report = sim.harness_errors[0]
    res = {
        'cls': cls,
        'verdict': kind,
        'violations': [[s, _jsonable(d)] for s, d in vio],
        'digest': sim.digest(),
        'steps': sim.steps,
        'switches': sim.switches,
        'vtime': round(sim.now - sim.t0, 6),
        'nthreads': len(sim.threads),
        'max_runnable': sim.max_runnable,
        'multi_steps': sim.multi_steps,
        'counters': dict(sim.counters, racy_timer=sim.racy_fired),
        'ndecisions': len(sim.decisions),
    }
    if cls != 'ok':
        res['decisions'] = sim.decisions
        res['report'] = _jsonable(report)
    nt = getattr(check, 'nontrivial', None)
    res['nontrivial'] = (bool(nt(sim, sc, obs)) if obs is not None else False) if nt is not None else sim.max_runnable >= 2
    tags = getattr(check, 'tags', None)
    if tags is not None and obs is not None:
        try:
            res['tags'] = list(tags(sim, sc, obs))
        except Exception:
            pass
    return res


def _jsonable(x):
    try:
        json.dumps(x)
        return x
    except Exception:
        return repr(x)


def run_forked(check, case, trace=False, quiet=True, wall=RUN_WALL_LIMIT):
    """Fork, execute the case in the child, return its result dict (or a harness-* result)."""
    r, w = os.pipe()
    pid = os.fork()
    if pid == 0:
        code = 0
        try:
            os.close(r)
            if quiet:
                dn = os.open(os.devnull, os.O_WRONLY)
                os.dup2(dn, 1)
                os.dup2(dn, 2)
            try:
                res = execute(check, case, trace=trace)
            except BaseException:
                res = {'cls': 'harness-error', 'verdict': 'exception', 'violations': [], 'report': traceback.format_exc(),
                       'digest': '', 'steps': 0, 'switches': 0, 'vtime': 0, 'nthreads': 0, 'max_runnable': 0,
                       'multi_steps': 0, 'counters': {}, 'ndecisions': 0, 'nontrivial': False}
            data = json.dumps(res).encode()
            mv = memoryview(data)
            while mv:
                n = os.write(w, mv)
                mv = mv[n:]
        except BaseException:
            code = 3
        finally:
            os._exit(code)
    os.close(w)
    chunks = []
    deadline = time.monotonic() + wall
    timed_out = False
    while True:
        left = deadline - time.monotonic()
        if left <= 0:
            timed_out = True
            break
        rl, _, _ = select.select([r], [], [], min(left, 5.0))
        if rl:
            b = os.read(r, 1 << 20)
            if not b:
                break
            chunks.append(b)
    os.close(r)
    if timed_out:
        try:
            os.kill(pid, signal.SIGKILL)
        except ProcessLookupError:
            pass
    os.waitpid(pid, 0)
    if timed_out or not chunks:
        return {'cls': 'harness-error', 'verdict': 'harness-timeout' if timed_out else 'child-died', 'violations': [],
                'report': 'no result from child', 'digest': '', 'steps': 0, 'switches': 0, 'vtime': 0, 'nthreads': 0,
                'max_runnable': 0, 'multi_steps': 0, 'counters': {}, 'ndecisions': 0, 'nontrivial': False}
    return json.loads(b''.join(chunks))


# ------------------------------------------------------------------------------------------------
def make_case(check, prop, tier, base_seed, i):
    seed = derive_seed(base_seed, prop, tier, i)
    rng = random.Random(seed ^ 0x5EED)
    g = check.gen(rng, tier)
    return {'property': prop, 'seed': seed, 'index': i, 'scenario': g['scenario'], 'sim': g.get('sim') or {}}


def load_known(prop):
    out = []
    p = os.path.join(VERIF, 'KNOWN_FINDINGS.jsonl')
    if os.environ.get('VERIF_IGNORE_KNOWN'):
        return out  # tooling only: lets a listed finding be minimised into replays/known/<id>.json
    if os.path.exists(p):
        for line in open(p):
            line = line.strip()
            if not line or line.startswith('#'):
                continue
            e = json.loads(line)
            if e.get('status') == 'open' and (e.get('property') == prop or prop in e.get('surfaces_in', [])):
                out.append(e)
    return out


def match_known(known, sig):
    for e in known:
        if re.search(e['signature_re'], sig):
            return e
    return None


def runner_main(check, prop, tier, base_seed, k, n, total, deadline, outdir, known):
    try:
        cpus = sorted(os.sched_getaffinity(0))
        os.sched_setaffinity(0, {cpus[k % len(cpus)]})
    except Exception:
        pass
    stopfile = os.path.join(outdir, 'stop')
    agg = {'runs': 0, 'cls': {}, 'verdicts': {}, 'steps': 0, 'switches': 0, 'vtime': 0.0, 'vtime_max': 0.0,
           'counters': {}, 'digests': [], 'nontrivial': 0, 'failing': [], 'samples': [], 'tags': {},
           'errors': [], 'ndecisions': 0, 'max_threads': 0, 'strategies': {}, 'sigcount': {}}
    seen_sig = {}
    i = k
    while i < total:
        if time.monotonic() > deadline or os.path.exists(stopfile):
            break
        try:
            case = make_case(check, prop, tier, base_seed, i)
        except Exception:
            if len(agg['errors']) < 3:
                agg['errors'].append({'index': i, 'seed': derive_seed(base_seed, prop, tier, i), 'verdict': 'scenario-generator-raised',
                                      'report': traceback.format_exc(), 'scenario': None, 'sim': None})
            agg['cls']['harness-error'] = agg['cls'].get('harness-error', 0) + 1
            i += n
            continue
        res = run_forked(check, case)
        if res['cls'] == 'harness-error' and res['verdict'] in ('harness-timeout', 'child-died'):
            # the forked child produced no result within the wall limit (seen about once in 10^5 runs on a loaded machine, never
            # reproducibly): the case is run again; only a case that fails to produce a result twice counts as a harness error
            agg['counters']['harness_run_repeated_after_no_result'] = agg['counters'].get('harness_run_repeated_after_no_result', 0) + 1
            res = run_forked(check, case, wall=2 * RUN_WALL_LIMIT)
        agg['runs'] += 1
        agg['cls'][res['cls']] = agg['cls'].get(res['cls'], 0) + 1
        agg['verdicts'][res['verdict']] = agg['verdicts'].get(res['verdict'], 0) + 1
        agg['steps'] += res['steps']
        agg['switches'] += res['switches']
        agg['vtime'] += res['vtime']
        agg['ndecisions'] += res['ndecisions']
        agg['vtime_max'] = max(agg['vtime_max'], res['vtime'])
        agg['max_threads'] = max(agg['max_threads'], res['nthreads'])
        st = case['sim'].get('strategy', 'random') + '/' + case['sim'].get('time_mode', 'exact') + \
            ('/line' if case['sim'].get('line_p') else '')
        agg['strategies'][st] = agg['strategies'].get(st, 0) + 1
        for ck, cv in res['counters'].items():
            agg['counters'][ck] = agg['counters'].get(ck, 0) + cv
        for tg in res.get('tags', ()):
            agg['tags'][tg] = agg['tags'].get(tg, 0) + 1
        if res['nontrivial'] and res['cls'] == 'ok':
            agg['nontrivial'] += 1
            agg['digests'].append(res['digest'])
        if len(agg['samples']) < 2 and res['cls'] == 'ok' and res['nontrivial']:
            agg['samples'].append({'seed': case['seed'], 'index': i, 'scenario': case['scenario'], 'sim': case['sim'],
                                   'steps': res['steps'], 'switches': res['switches'], 'vtime': res['vtime'],
                                   'decisions': res['ndecisions'], 'digest': res['digest']})
        if res['cls'] == 'violation':
            unknown = False
            for sig, detail in res['violations']:
                agg['sigcount'][sig] = agg['sigcount'].get(sig, 0) + 1
                if match_known(known, sig) is None:
                    unknown = True
                if seen_sig.get(sig, 0) < 2:
                    seen_sig[sig] = seen_sig.get(sig, 0) + 1
                    agg['failing'].append({'case': dict(case, decisions=res['decisions']), 'sig': sig, 'detail': detail,
                                           'all_sigs': [s for s, _ in res['violations']], 'digest': res['digest'],
                                           'steps': res['steps']})
            if unknown:
                agg['unknown'] = agg.get('unknown', 0) + 1
                if agg['unknown'] >= 3:
                    open(stopfile, 'w').close()
        elif res['cls'] == 'harness-error':
            if len(agg['errors']) < 3:
                agg['errors'].append({'index': i, 'seed': case['seed'], 'verdict': res['verdict'], 'report': res.get('report'),
                                      'scenario': case['scenario'], 'sim': case['sim']})
        i += n
    with open(os.path.join(outdir, f'r{k}.json'), 'w') as f:
        json.dump(agg, f)
    os._exit(0)


def search(check, prop, tier, base_seed, total, wall, jobs, known):
    outdir = tempfile.mkdtemp(prefix='verif-run-')
    deadline = time.monotonic() + wall
    pids = []
    try:
        for k in range(jobs):
            pid = os.fork()
            if pid == 0:
                try:
                    runner_main(check, prop, tier, base_seed, k, jobs, total, deadline, outdir, known)
                finally:
                    os._exit(4)
            pids.append(pid)
        for pid in pids:
            os.waitpid(pid, 0)
        aggs = []
        for k in range(jobs):
            p = os.path.join(outdir, f'r{k}.json')
            if os.path.exists(p):
                aggs.append(json.load(open(p)))
        return aggs
    finally:
        shutil.rmtree(outdir, ignore_errors=True)


# ------------------------------------------------------------------------------------------------
# minimisation
def _same(res, sig):
    return res['cls'] == 'violation' and any(s == sig for s, _ in res['violations'])


def minimise(check, case, sig, budget_runs=250, budget_s=30.0, log=None):
    t_end = time.monotonic() + budget_s
    runs = [0]

    def attempt(c):
        if runs[0] >= budget_runs or time.monotonic() > t_end:
            return None
        runs[0] += 1
        r = run_forked(check, c, wall=30.0)
        return r if _same(r, sig) else None

    best = dict(case)
    r0 = attempt(best)
    if r0 is None:
        return None, runs[0]
    best['decisions'] = r0['decisions']
    best_res = r0
    # 1. scenario shrinking
    shr = getattr(check, 'shrink', None)
    if shr is not None:
        improved = True
        while improved and runs[0] < budget_runs * 0.5:
            improved = False
            for cand_sc in shr(best['scenario']):
                c = dict(best, scenario=cand_sc)
                r = attempt(c)
                if r is None:
                    c2 = dict(c)
                    c2.pop('decisions', None)
                    r = attempt(c2)
                    if r is not None:
                        c = c2
                if r is not None:
                    best = dict(c, decisions=r['decisions'])
                    best_res = r
                    improved = True
                    break
                if runs[0] >= budget_runs * 0.5:
                    break
    # 2. truncate the decision list (past the end every decision is 0). `best` and `best_res` are only ever replaced TOGETHER, by a
    #    candidate that was actually run: when the budget runs out mid-way the pair returned is still a case and ITS result.
    dec = list(best['decisions'])
    lo, hi = 0, len(dec)
    while lo < hi and runs[0] < budget_runs:
        mid = (lo + hi) // 2
        c = dict(best, decisions=dec[:mid])
        r = attempt(c)
        if r is not None:
            hi = mid
            best, best_res = c, r
        else:
            lo = mid + 1
    dec = list(best['decisions'])
    # 3. zero chunks (ddmin over non-zero decisions)
    chunk = max(1, len(dec) // 4)
    while chunk >= 1 and runs[0] < budget_runs and time.monotonic() < t_end:
        i = 0
        while i < len(dec) and runs[0] < budget_runs:
            if any(dec[i:i + chunk]):
                cand = dec[:i] + [0] * len(dec[i:i + chunk]) + dec[i + chunk:]
                c = dict(best, decisions=cand)
                r = attempt(c)
                if r is not None:
                    dec = cand
                    best, best_res = c, r
            i += chunk
        if chunk == 1:
            break
        chunk = max(1, chunk // 2)
    dec = list(best['decisions'])
    while dec and dec[-1] == 0:
        dec.pop()  # trailing zeros are what replay supplies past the end anyway: same execution
    best = dict(best, decisions=dec)
    return (best, best_res), runs[0]


# ------------------------------------------------------------------------------------------------
def write_replay(prop, case, res, sig, known_entry=None):
    d = os.path.join(VERIF, 'replays')
    os.makedirs(d, exist_ok=True)
    tag = hashlib.blake2b(sig.encode(), digest_size=3).hexdigest()
    path = os.path.join(d, f'{prop}-{case["seed"]}-{tag}.json')
    detail = None
    for s, dt in res['violations']:
        if s == sig:
            detail = dt
            break
    doc = {'property': prop, 'seed': case['seed'], 'scenario': case['scenario'], 'sim': case.get('sim') or {},
           'decisions': case.get('decisions'), 'violation': {'signature': sig, 'detail': detail},
           'all_signatures': [s for s, _ in res['violations']], 'digest': res['digest'],
           'repo_src': REPO_SRC, 'nonzero_decisions': sum(1 for v in (case.get('decisions') or []) if v)}
    with open(path, 'w') as f:
        json.dump(doc, f, indent=1)
    return path


def replay_file(check, path, verbose=True):
    doc = json.load(open(path))
    case = {'property': doc['property'], 'seed': doc['seed'], 'scenario': doc['scenario'], 'sim': doc.get('sim') or {},
            'decisions': doc.get('decisions')}
    res = run_forked(check, case, trace=verbose, quiet=not verbose)
    return doc, res


# ------------------------------------------------------------------------------------------------
def run_check(prop, tier, base_seed, jobs=None, runs=None, wall=None):
    t0 = time.monotonic()
    check = load_check(prop)
    setup(getattr(check, 'NEEDS', ()))
    check = importlib.reload(check) if False else check
    budget = dict(getattr(check, tier.upper()))
    if runs is not None:
        budget['runs'] = runs
    if wall is not None:
        budget['wall'] = wall
    jobs = jobs or int(os.environ.get('VERIF_JOBS', 0)) or len(os.sched_getaffinity(0))
    known = load_known(prop)
    aggs = search(check, prop, tier, base_seed, budget['runs'], budget['wall'], jobs, known)
    t_search = time.monotonic() - t0

    tot = {'runs': 0, 'cls': {}, 'verdicts': {}, 'steps': 0, 'switches': 0, 'vtime': 0.0, 'vtime_max': 0.0, 'counters': {},
           'nontrivial': 0, 'tags': {}, 'ndecisions': 0, 'max_threads': 0, 'strategies': {}, 'sigcount': {}}
    digests = set()
    failing = []
    samples = []
    errors = []
    for a in aggs:
        tot['runs'] += a['runs']
        for key in ('steps', 'switches', 'vtime', 'nontrivial', 'ndecisions'):
            tot[key] += a[key]
        tot['vtime_max'] = max(tot['vtime_max'], a['vtime_max'])
        tot['max_threads'] = max(tot['max_threads'], a['max_threads'])
        for key in ('cls', 'verdicts', 'counters', 'tags', 'strategies', 'sigcount'):
            for kk, vv in a[key].items():
                tot[key][kk] = tot[key].get(kk, 0) + vv
        digests.update(a['digests'])
        failing.extend(a['failing'])
        samples.extend(a['samples'])
        errors.extend(a['errors'])

    # ---- violations: group by signature, minimise unknown ones, print lines
    by_sig = {}
    for f in sorted(failing, key=lambda f: (f['steps'], f['case']['index'])):
        by_sig.setdefault(f['sig'], []).append(f)
    lines = []
    exit_code = 0
    known_hit = {}
    n_unknown = 0
    finding_records = []
    for sig, fs in sorted(by_sig.items()):
        e = match_known(known, sig)
        if e is not None:
            known_hit.setdefault(e['id'], [e, 0])
            known_hit[e['id']][1] += tot['sigcount'].get(sig, len(fs))
            continue
        n_unknown += 1
        if n_unknown > 3:
            continue
        f = fs[0]
        mres, nruns = minimise(check, f['case'], sig)
        if mres is None:
            # could not reproduce in a fresh process: harness problem (nondeterminism)
            errors.append({'verdict': 'replay-mismatch', 'report': f'signature {sig} did not reproduce', 'index': f['case']['index'],
                           'seed': f['case']['seed'], 'scenario': f['case']['scenario'], 'sim': f['case']['sim']})
            continue
        mcase, mr = mres
        # final confirmation in a fresh process: same signature and same digest
        conf = run_forked(check, mcase, wall=3 * RUN_WALL_LIMIT)
        if not _same(conf, sig) or conf['digest'] != mr['digest']:
            # fall back to the case as it was found (recorded decisions, not minimised): it must replay twice identically
            c0 = f['case']
            a = run_forked(check, c0, wall=3 * RUN_WALL_LIMIT)
            b = run_forked(check, c0, wall=3 * RUN_WALL_LIMIT) if _same(a, sig) else None
            if b is not None and _same(b, sig) and a['digest'] == b['digest']:
                mcase, mr = c0, a
            else:
                errors.append({'verdict': 'replay-mismatch', 'report': f'minimised replay of {sig} not stable', 'index': f['case']['index'],
                               'seed': f['case']['seed'], 'scenario': mcase['scenario'], 'sim': mcase['sim']})
                continue
        path = write_replay(prop, mcase, mr, sig)
        lines.append(f'VIOLATION property={prop} replay={path}')
        finding_records.append({'signature': sig, 'replay': path, 'count': tot['sigcount'].get(sig), 'minimise_runs': nruns,
                                'scenario': mcase['scenario']})
        exit_code = 1
    for eid, (e, cnt) in sorted(known_hit.items()):
        lines.append(f'KNOWN-FINDING: property={prop} {e["id"]}: {e["what"]} (met in {cnt} runs)')
    harness_bad = tot['cls'].get('harness-error', 0)
    inconclusive = tot['cls'].get('inconclusive', 0)
    if exit_code == 0:
        if errors or harness_bad:
            exit_code = 2
        elif tot['runs'] and inconclusive > 0.01 * tot['runs']:
            exit_code = 2
        elif tot['runs'] == 0:
            exit_code = 2
    wall_s = time.monotonic() - t0

    # ---- evidence
    ev = {
        'property_id': prop,
        'tier': tier,
        'seed': base_seed,
        'level': getattr(check, 'LEVEL', 'exploration'),
        'coverage': {
            'evaluations': tot['runs'],
            'distinct_nontrivial': len(digests),
            'rule': getattr(check, 'RULE', '') + ' | distinct = distinct event-log digests (every context switch, timer, spawn, '
            'harness event) among passing runs that are non-trivial: ' + getattr(check, 'NONTRIVIAL_RULE', '>=2 simulated threads runnable at the same step'),
            'samples': samples[:3],
            'runs_per_hour': int(tot['runs'] / max(t_search, 1e-6) * 3600),
            'search_wall_s': round(t_search, 2),
            'jobs': jobs,
            'simulated_seconds_total': round(tot['vtime'], 3),
            'simulated_seconds_max_run': round(tot['vtime_max'], 3),
            'scheduler_steps': tot['steps'],
            'context_switches': tot['switches'],
            'decisions_drawn': tot['ndecisions'],
            'max_threads_in_a_run': tot['max_threads'],
            'run_classes': tot['cls'],
            'verdicts': tot['verdicts'],
            'strategy_mix': tot['strategies'],
            'faults_and_probes_fired': tot['counters'],
            'scenario_tags': tot['tags'],
            'violation_signatures': tot['sigcount'],
            'known_findings_met': {eid: cnt for eid, (e, cnt) in known_hit.items()},
            'new_violations': finding_records,
            'harness_errors': errors[:3],
            'real_components': getattr(check, 'REAL', []),
            'stubbed_components': getattr(check, 'STUB', []),
            'repo_src': REPO_SRC,
        },
        'assumptions': getattr(check, 'ASSUMPTIONS', []) + [
            'sampling of schedules/faults, not enumeration: a clean batch is evidence over the explored decision sequences only',
            'pre-emption happens at synchronisation operations and (in line-mode runs) between source lines of mpservice code; never inside a bytecode',
        ],
        'wall_s': round(wall_s, 2),
        'violations': sum(1 for l in lines if l.startswith('VIOLATION')),
    }
    if not os.environ.get('VERIF_NO_EVIDENCE'):
        os.makedirs(os.path.join(VERIF, 'evidence'), exist_ok=True)
        with open(os.path.join(VERIF, 'evidence', f'{prop}.json'), 'w') as f:
            json.dump(ev, f, indent=1, sort_keys=True)

    for l in lines:
        print(l)
    print(f'[{prop} {tier}] runs={tot["runs"]} nontrivial_distinct={len(digests)} classes={tot["cls"]} '
          f'verdicts={tot["verdicts"]} wall={wall_s:.1f}s rate={ev["coverage"]["runs_per_hour"]}/h exit={exit_code}')
    if errors:
        for e in errors[:3]:
            print('HARNESS-ERROR', e.get('verdict'), 'index', e.get('index'), 'seed', e.get('seed'))
            print(str(e.get('report'))[-3000:])
    return exit_code
