"""Interposition on _thread / threading / time / queue / concurrent.futures identity.

`install()` must run before anything imports mpservice (so that `from time import perf_counter`
and friends bind the patched functions).  Everything above the lock primitive stays real stdlib
code: Condition, RLock, Event, Semaphore, Barrier, Thread, queue.Queue, Future, ThreadPoolExecutor.
"""
import _thread
import builtins
import itertools
import sys
import time as _time_mod
import weakref

from . import core
from .core import SimLock, cur

_installed = False
_LOCALS = weakref.WeakSet()


class TrackedLocal(_thread._local):
    """threading.local whose instances are known to the simulator: when a simulated thread ends, its thread-local contents are
    released while it still holds the baton (CPython would release them during the OS thread's teardown, i.e. concurrently with
    whatever runs next - e.g. a per-thread manager connection being closed by its finalizer)."""

    def __new__(cls, *a, **k):
        self = super().__new__(cls, *a, **k)
        _LOCALS.add(self)
        return self


def release_thread_locals():
    for loc in list(_LOCALS):
        try:
            d = object.__getattribute__(loc, '__dict__')
            if d:
                d.clear()
        except Exception:
            pass


def sim_sleep(secs):
    sim, me = cur()
    if sim is None:
        return core.real_sleep(secs)
    sim.block(me, None, max(0.0, secs), 'sleep')


def p_monotonic():
    s = core._SIM
    return s.now if s is not None and core._real_get_ident() in core._BY_IDENT else core.real_monotonic()


def p_perf_counter():
    s = core._SIM
    return s.now if s is not None and core._real_get_ident() in core._BY_IDENT else core.real_perf_counter()


def p_time():
    s = core._SIM
    return 1.7e9 + s.now if s is not None and core._real_get_ident() in core._BY_IDENT else core.real_time()


def p_monotonic_ns():
    return int(p_monotonic() * 1e9)


def p_time_ns():
    return int(p_time() * 1e9)


def p_start_new_thread(func, args=(), kwargs=None):
    sim, me = cur()
    if sim is None:
        return core._real_start_new_thread(func, args, kwargs or {})
    t = sim.spawn(func, args, kwargs)
    sim.log('spawn', me.idx, t.idx)
    sim.yield_point(me, 'spawn')
    return -t.idx - 1000


def p_set_sentinel():
    sim, me = cur()
    if sim is None:
        return _thread._set_sentinel()
    lk = SimLock()
    me.sentinel = lk
    return lk


class SimId:
    """Deterministic `id()` that is unique among live objects and, with a per-run probability,
    hands the number of a dead object to the next new one (LIFO) - exactly the freedom CPython's
    allocator has.  Objects that cannot be weakly referenced fall back to the real id."""

    def __init__(self):
        self.live = {}
        self.free = []
        self.ctr = itertools.count(0x5000)
        self.reused = 0

    def reset(self):
        self.live.clear()
        del self.free[:]
        self.ctr = itertools.count(0x5000)

    def __call__(self, obj):
        k = builtins.id(obj)
        e = self.live.get(k)
        if e is not None and e[0]() is obj:
            return e[1]
        s = core._SIM
        n = None
        if self.free and s is not None:
            q = s.cfg.get('id_reuse', 0.0)
            if q > 0.0 and cur()[0] is not None and s.chance(q):
                n = self.free.pop()
                self.reused += 1
                s.count('id_reuse')
        if n is None:
            n = next(self.ctr) * 16
        live = self.live
        free = self.free

        def dead(wr, k=k, n=n):
            e = live.get(k)
            if e is not None and e[0] is wr:
                del live[k]
                free.append(n)

        try:
            wr = weakref.ref(obj, dead)
        except TypeError:
            return k
        live[k] = (wr, n)
        return n


sim_id = SimId()


def inject_id(*modules):
    for m in modules:
        m.id = sim_id


def install():
    global _installed
    if _installed:
        return
    _installed = True
    import queue
    import threading

    _time_mod.sleep = sim_sleep
    _time_mod.monotonic = p_monotonic
    _time_mod.perf_counter = p_perf_counter
    _time_mod.time = p_time
    _time_mod.monotonic_ns = p_monotonic_ns
    _time_mod.perf_counter_ns = p_monotonic_ns
    _time_mod.time_ns = p_time_ns
    threading._time = p_monotonic
    queue.time = p_monotonic
    threading.local = TrackedLocal
    core.thread_exit_hook = release_thread_locals
    threading._allocate_lock = SimLock
    threading.Lock = SimLock
    threading._CRLock = None
    threading._start_new_thread = p_start_new_thread
    threading._set_sentinel = p_set_sentinel
    queue.SimpleQueue = queue._PySimpleQueue

    hc = itertools.count(1)
    _orig_init = threading.Thread.__init__

    def _init(self, *a, **k):
        self._sim_hash = next(hc)
        _orig_init(self, *a, **k)

    threading.Thread.__init__ = _init
    threading.Thread.__hash__ = lambda self: getattr(self, '_sim_hash', 0)

    import concurrent.futures._base as cfb

    _fi = cfb.Future.__init__

    def _finit(self):
        self._sim_hash = next(hc)
        _fi(self)

    cfb.Future.__init__ = _finit
    cfb.Future.__hash__ = lambda self: getattr(self, '_sim_hash', 0)
    cfb.id = lambda o: getattr(o, '_sim_hash', None) or builtins.id(o)

    # module-level locks already created inside threading
    threading._active_limbo_lock = threading.RLock()
    threading._shutdown_locks_lock = SimLock()

    # exceptions escaping a thread's run(): record, do not print
    def _excepthook(a):
        s = core._SIM
        if a.exc_type is core.SimAbort or a.exc_type is SystemExit:
            return  # the default hook ignores SystemExit silently, too
        if s is not None:
            import traceback
            me = cur()[1]
            s.thread_excs.append((me.idx if me else -1, a.thread.name if a.thread else '?', a.exc_type.__name__,
                                  ''.join(traceback.format_exception(a.exc_type, a.exc_value, a.exc_traceback))))
            s.log('thread-exc', a.exc_type.__name__)

    threading.excepthook = _excepthook
    _hc_state['hc'] = hc


_hc_state = {}
