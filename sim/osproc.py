"""Simulated OS process boundary for multiprocessing (spawn) on top of the scheduler.

Modelled (OS level only): descriptors / pipes with byte capacity, short reads and writes, EOF and EPIPE,
named FIFOs, POSIX semaphores (SemLock), process spawn / exit / kill, getpid / current_process,
per-process finalizers and after-fork hooks, unix-socket listener/client for multiprocessing.connection,
/dev/shm for SharedMemory, per-process logging root.

Real (unmodified code running above the model): multiprocessing.connection.Connection framing and
auth handshake, multiprocessing.queues.*, multiprocessing.synchronize.*, multiprocessing.managers.*,
concurrent.futures.process, and everything in mpservice.
"""
import gc
import itertools
import os
import pickle
import signal
import sys

from . import core
from .core import cur

_real_getpid = os.getpid
FD_BASE = 1_000_000
K = None  # the active kernel


def sim_getpid():
    k = K
    if k is not None:
        me = core._BY_IDENT.get(core._real_get_ident())
        if me is not None:
            p = me.proc
            return p.pid if p is not None else k.main.pid
    return _real_getpid()


def preinstall():
    """Must run before multiprocessing.util is first imported (Finalize captures os.getpid as a default)."""
    os.getpid = sim_getpid


class KPipe:
    __slots__ = ('buf', 'cap', 'nreaders', 'nwriters', 'rwait', 'wwait', 'name')

    def __init__(self, cap, name=None):
        self.buf = bytearray()
        self.cap = cap
        self.nreaders = 0
        self.nwriters = 0
        self.rwait = []
        self.wwait = []
        self.name = name


class OpenFile:
    __slots__ = ('rpipe', 'wpipe', 'owner')

    def __init__(self, rpipe, wpipe, owner):
        self.rpipe = rpipe
        self.wpipe = wpipe
        self.owner = owner
        if rpipe is not None:
            rpipe.nreaders += 1
        if wpipe is not None:
            wpipe.nwriters += 1


class Proc:
    def __init__(self, pid, ppid, name):
        self.pid = pid
        self.ppid = ppid
        self.name = name
        self.fds = set()
        self.threads = []
        self.pyobj = None  # the BaseProcess object as seen inside the process (current_process())
        self.pyobj_parent = None  # the BaseProcess object held by the parent
        self.returncode = None
        self.exit_wait = []
        self.children = []
        self.inheriting = False
        self.phase = 'spawned'  # spawned | unpickled | running | finishing | exited | killed
        self.log_mgr = None
        self.kill_at = None  # (phase or step) planned kill, set by the harness


class Kernel:
    def __init__(self, sim, cfg):
        self.sim = sim
        self.fdtab = {}
        self.nextfd = itertools.count(FD_BASE)
        self.nextpid = itertools.count(100)
        self.procs = {}
        self.main = Proc(next(self.nextpid), 1, 'MainProcess')
        self.procs[self.main.pid] = self.main
        self.sems = {}
        self.listeners = {}
        self.nsem = itertools.count(1)
        self.shm = {}
        self.fifos = {}
        self.pipe_cap = cfg.get('pipe_cap', 65536)
        self.sock_cap = cfg.get('sock_cap', 212992)
        self.p_short = cfg.get('p_short_io', 0.3)
        self.on_step = None

    def cur_proc(self):
        me = core._BY_IDENT.get(core._real_get_ident())
        if me is None:
            return None
        return me.proc or self.main

    # ---- descriptors
    def new_fd(self, rpipe, wpipe, proc=None):
        proc = proc or self.cur_proc() or self.main
        fd = next(self.nextfd)
        self.fdtab[fd] = OpenFile(rpipe, wpipe, proc)
        proc.fds.add(fd)
        return fd

    def dup_to(self, fd, proc):
        of = self.fdtab[fd]
        return self.new_fd(of.rpipe, of.wpipe, proc)

    def close(self, fd):
        of = self.fdtab.pop(fd, None)
        if of is None:
            raise OSError(9, 'Bad file descriptor')
        of.owner.fds.discard(fd)
        sim = self.sim
        if of.rpipe is not None:
            of.rpipe.nreaders -= 1
            if of.rpipe.nreaders == 0:
                sim.wake_all(of.rpipe.wwait)
        if of.wpipe is not None:
            of.wpipe.nwriters -= 1
            if of.wpipe.nwriters == 0:
                sim.wake_all(of.wpipe.rwait)

    def pipe(self, cap=None):
        p = KPipe(cap or self.pipe_cap)
        return self.new_fd(p, None), self.new_fd(None, p)

    def read(self, fd, n):
        sim, me = cur()
        of = self.fdtab.get(fd)
        if of is None or of.rpipe is None:
            raise OSError(9, 'Bad file descriptor')
        p = of.rpipe
        sim.yield_point(me, 'read')
        while not p.buf:
            if p.nwriters == 0:
                return b''
            sim.block(me, p.rwait, None, 'read')
            if fd not in self.fdtab:
                raise OSError(9, 'Bad file descriptor')
        m = min(n, len(p.buf))
        if m > 1 and sim.chance(self.p_short):
            m = 1 + sim.choose(m)
            sim.count('short_read')
        data = bytes(p.buf[:m])
        del p.buf[:m]
        sim.wake_all(p.wwait)
        return data

    def write(self, fd, data):
        sim, me = cur()
        of = self.fdtab.get(fd)
        if of is None or of.wpipe is None:
            raise OSError(9, 'Bad file descriptor')
        p = of.wpipe
        sim.yield_point(me, 'write')
        while True:
            if p.nreaders == 0:
                raise BrokenPipeError(32, 'Broken pipe')
            room = p.cap - len(p.buf)
            if room > 0:
                break
            sim.count('pipe_full_block')
            sim.block(me, p.wwait, None, 'write')
            if fd not in self.fdtab:
                raise OSError(9, 'Bad file descriptor')
        m = min(room, len(data))
        if m > 1 and sim.chance(self.p_short):
            m = 1 + sim.choose(m)
            sim.count('short_write')
        p.buf += bytes(data[:m])
        sim.wake_all(p.rwait)
        return m

    def poll_readable(self, fd, timeout):
        sim, me = cur()
        of = self.fdtab.get(fd)
        if of is None or of.rpipe is None:
            raise OSError(9, 'Bad file descriptor')
        p = of.rpipe
        sim.yield_point(me, 'poll')
        if p.buf or p.nwriters == 0:
            return True
        if timeout is not None and timeout <= 0:
            return False
        sim.block(me, p.rwait, timeout, 'poll')
        return bool(p.buf) or p.nwriters == 0


def kernel():
    return K


def start_kernel(sim, cfg=None):
    global K
    K = Kernel(sim, cfg or {})
    sim.kernel = K
    _AF_PID.clear()
    if 'a2l' in _state:
        _state['a2l'].d.clear()
    return K


# ======================================================================= Connection
def install_connection():
    import io
    import multiprocessing.connection as mc

    C = mc.Connection
    orig = dict(_send=C._send, _recv=C._recv, _close=C._close, _poll=C._poll)

    def _send(self, buf):
        if self._handle < FD_BASE:
            return orig['_send'](self, buf)
        remaining = len(buf)
        while True:
            n = K.write(self._handle, buf)
            remaining -= n
            if remaining == 0:
                break
            buf = buf[n:]

    def _recv(self, size):
        if self._handle < FD_BASE:
            return orig['_recv'](self, size)
        buf = io.BytesIO()
        remaining = size
        while remaining > 0:
            chunk = K.read(self._handle, remaining)
            n = len(chunk)
            if n == 0:
                if remaining == size:
                    raise EOFError
                raise OSError('got end of file during message')
            buf.write(chunk)
            remaining -= n
        return buf

    def _close(self):
        if self._handle < FD_BASE:
            return orig['_close'](self)
        if K is not None and self._handle in K.fdtab:
            K.close(self._handle)

    def _poll(self, timeout):
        if self._handle < FD_BASE:
            return orig['_poll'](self, timeout)
        return K.poll_readable(self._handle, timeout)

    C._send = _send
    C._recv = _recv
    C._close = _close
    C._poll = _poll

    def Pipe(duplex=True):
        if K is None or cur()[0] is None:
            raise RuntimeError('simulated Pipe outside the simulator')
        if duplex:
            a, b = KPipe(K.sock_cap), KPipe(K.sock_cap)
            c1 = C(K.new_fd(a, b))
            c2 = C(K.new_fd(b, a))
        else:
            p = KPipe(K.pipe_cap)
            c1 = C(K.new_fd(p, None), writable=False)
            c2 = C(K.new_fd(None, p), readable=False)
        return c1, c2

    mc.Pipe = Pipe

    def wait(object_list, timeout=None):
        sim, me = cur()
        sim.yield_point(me, 'mwait')

        def pipes():
            out = []
            for o in object_list:
                fd = o if isinstance(o, int) else o.fileno()
                of = K.fdtab.get(fd)
                out.append((o, of.rpipe if of is not None else None))
            return out

        def ready():
            return [o for o, p in pipes() if p is None or p.buf or p.nwriters == 0]

        r = ready()
        if r or (timeout is not None and timeout <= 0):
            return r
        wls = tuple(p.rwait for o, p in pipes())
        sim.block(me, wls, timeout, 'mwait')
        return ready()

    mc.wait = wait

    class SimListener:
        def __init__(self, address, family=None, backlog=1):
            self.owner = K.cur_proc()
            self._address = address
            self._family = 'AF_UNIX'
            self._last_accepted = None
            self.queue = []
            self.waiters = []
            self.closed = False
            self._unlink = None
            K.listeners[address] = self

        def accept(self):
            sim, me = cur()
            sim.yield_point(me, 'accept')
            while not self.queue:
                if self.closed:
                    raise OSError('listener closed')
                sim.block(me, self.waiters, None, 'accept')
            fd = self.queue.pop(0)
            return C(fd)

        def close(self):
            self.closed = True
            if K is not None:
                if K.listeners.get(self._address) is self:
                    K.listeners.pop(self._address, None)
                K.sim.wake_all(self.waiters)

    def SimSocketClient(address):
        sim, me = cur()
        sim.yield_point(me, 'connect')
        lis = K.listeners.get(address)
        if lis is None or lis.closed:
            raise ConnectionRefusedError(111, 'Connection refused', address)
        a, b = KPipe(K.sock_cap), KPipe(K.sock_cap)
        lis.queue.append(K.new_fd(a, b, lis.owner))
        sim.wake_one(lis.waiters)
        return C(K.new_fd(b, a))

    ctr = itertools.count(1)
    mc.SocketListener = SimListener
    mc.SocketClient = SimSocketClient
    mc.arbitrary_address = lambda family: f'/sim/listener-{next(ctr)}'
    mc.address_type = lambda address: 'AF_UNIX'
    import random
    det = random.Random(1234)
    shim = type(sys)('os_shim_for_multiprocessing_connection')
    shim.__dict__.update(os.__dict__)
    shim.urandom = lambda n: bytes(det.getrandbits(8) for _ in range(n))
    mc.os = shim
    _state['ctr'] = ctr
    _state['det'] = det


_state = {}


# ======================================================================= SemLock
class SimSemLock:
    SEM_VALUE_MAX = 2 ** 31 - 1

    def __init__(self, kind, value, maxvalue, name, unlink):
        self.kind = kind  # 0 = RECURSIVE_MUTEX, 1 = SEMAPHORE
        self.maxvalue = maxvalue
        self.name = None
        self.handle = next(K.nsem)
        self.k = {'value': value, 'waiters': [], 'owner': None, 'count': 0}
        K.sems[self.handle] = self.k

    @classmethod
    def _rebuild(cls, handle, kind, maxvalue, name):
        self = cls.__new__(cls)
        self.kind = kind
        self.maxvalue = maxvalue
        self.name = name
        self.handle = handle
        self.k = K.sems[handle]
        return self

    def acquire(self, block=True, timeout=None):
        sim, me = cur()
        k = self.k
        if self.kind == 0 and k['owner'] is me:
            k['count'] += 1
            return True
        sim.yield_point(me, 'sem-acq')
        deadline = None if timeout is None else sim.now + max(0, timeout)
        while k['value'] <= 0:
            if not block:
                return False
            rem = None if deadline is None else max(0.0, deadline - sim.now)
            r = sim.block(me, k['waiters'], rem, 'sem')
            if k['value'] > 0:
                break
            if r == 'timeout':
                return False
        k['value'] -= 1
        if self.kind == 0:
            k['owner'] = me
            k['count'] = 1
        return True

    def release(self):
        sim, me = cur()
        k = self.k
        if self.kind == 0:
            if k['owner'] is not me:
                raise AssertionError('attempt to release recursive lock not owned by thread')
            k['count'] -= 1
            if k['count'] > 0:
                return
            k['owner'] = None
        else:
            if k['value'] >= self.maxvalue:
                raise ValueError('semaphore or lock released too many times')
        k['value'] += 1
        sim.wake_one(k['waiters'])
        sim.yield_point(me, 'sem-rel')

    def __enter__(self):
        return self.acquire()

    def __exit__(self, *a):
        self.release()

    def _count(self):
        return self.k['count'] if self.k['owner'] is cur()[1] else 0

    def _is_mine(self):
        return self.k['owner'] is cur()[1]

    def _get_value(self):
        return self.k['value']

    def _is_zero(self):
        return self.k['value'] == 0

    def _after_fork(self):
        pass


def install_semlock():
    import multiprocessing.synchronize as ms
    shim = type(sys)('_multiprocessing_shim')
    shim.SemLock = SimSemLock
    shim.sem_unlink = lambda name: None
    ms._multiprocessing = shim
    ms.SEM_VALUE_MAX = SimSemLock.SEM_VALUE_MAX
    ms.sem_unlink = shim.sem_unlink


# ======================================================================= processes
class _DupFd:
    def __init__(self, fd):
        self.fd = fd

    def detach(self):
        return self.fd


_AF_PID = {}
CHILD_STDERR = []  # what simulated children wrote to "stderr" (tracebacks of failing targets)


class SimPopen:
    method = 'spawn'
    DupFd = _DupFd

    def __init__(self, process_obj):
        from multiprocessing import context, reduction
        sim, me = cur()
        parent = K.cur_proc()
        self.proc = proc = Proc(next(K.nextpid), parent.pid, process_obj.name)
        proc.pyobj_parent = process_obj
        K.procs[proc.pid] = proc
        parent.children.append(proc)
        self.pid = proc.pid
        self.returncode = None
        self.finalizer = None
        context.set_spawning_popen(self)
        try:
            data = bytes(reduction.ForkingPickler.dumps(process_obj))
        finally:
            context.set_spawning_popen(None)
        sp = KPipe(16)
        # sentinel: the parent's read end of a pipe whose write end lives as long as the child
        self.sentinel = K.new_fd(sp, None, parent)
        K.new_fd(None, sp, proc)
        sim.log('spawn-proc', parent.pid, proc.pid)
        sim.count('proc_spawned')

        def child_main():
            me2 = cur()[1]
            exitcode = 1
            obj = None
            try:
                proc.inheriting = True
                try:
                    obj = pickle.loads(data)
                finally:
                    proc.inheriting = False
                proc.pyobj = obj
                proc.phase = 'unpickled'
                _kill_point(proc, me2)
                # NB: no after-fork hooks here. CPython's SpawnProcess._after_fork is a no-op ("process is spawned, nothing
                # to do"), so util._run_after_forkers() never runs in a spawned child (checked against the real system:
                # conformance/real_c13_refcounts.py).
                try:
                    try:
                        proc.phase = 'running'
                        obj.run()
                        exitcode = 0
                    finally:
                        proc.phase = 'finishing'
                        _kill_point(proc, me2)
                        join_nondaemon_threads(proc, me2)
                        sim_exit_function(proc)
                except SystemExit as e:
                    if e.code is None:
                        exitcode = 0
                    elif isinstance(e.code, int):
                        exitcode = e.code
                    else:
                        CHILD_STDERR.append(str(e.code))
                        exitcode = 1
                except core.SimAbort:
                    raise
                except BaseException:
                    exitcode = 1
                    import traceback
                    CHILD_STDERR.append('Process %s:\n%s' % (getattr(obj, 'name', '?'), traceback.format_exc()))
                if exitcode == 0 and obj is not None:
                    # mpservice's SpawnProcess._bootstrap returns this attribute as the exit code
                    exitcode = getattr(obj, '_mpservice_exitcode_', 0)
            finally:
                if not sim.aborting and proc.returncode is None:
                    # interpreter finalisation: the process object (and what it references) goes away, then a GC
                    obj = None
                    proc.pyobj = None
                    if not sim._in_gc:
                        gc.collect()
                    proc_exit(proc, exitcode)

        t = sim.spawn(child_main, (), name=f'{process_obj.name}-main')
        # the new thread belongs to the new process, not to the parent's
        if t.proc is not None and t in t.proc.threads:
            t.proc.threads.remove(t)
        t.proc = proc
        proc.threads.append(t)
        sim.yield_point(me, 'popen')

    def duplicate_for_child(self, fd):
        return K.dup_to(fd, self.proc)

    # poll()/wait() follow multiprocessing.popen_fork.Popen line by line over a model of waitpid(2): an exited child is reaped by
    # exactly ONE waitpid call; every other call - also one that was already blocked when the child died - fails with ECHILD, which
    # Popen.poll() turns into "return None" WITHOUT setting returncode. Only the reaping thread sets returncode, after the system
    # call has returned (a scheduling point lies in between: the GIL was released during the call). Several threads calling
    # exitcode / is_alive / join on one Process object therefore see what they see on a real system
    # (conformance/real_c12_waitpid_race.py).
    def _waitpid(self, nohang):
        sim, me = cur()
        sim.yield_point(me, 'waitpid')
        pr = self.proc
        if getattr(pr, 'reaped', False):
            return 'echild'
        if pr.returncode is None:
            if nohang:
                return 'running'
            sim.block(me, pr.exit_wait, None, 'waitpid')
            if getattr(pr, 'reaped', False):
                return 'echild'
        pr.reaped = True
        sim.count('waitpid_reaped')
        return pr.returncode

    def poll(self, flag=os.WNOHANG):
        if self.returncode is None:
            r = self._waitpid(flag == os.WNOHANG)
            if r == 'echild':
                K.sim.count('waitpid_echild')
                return None
            if r != 'running':
                sim, me = cur()
                sim.yield_point(me, 'waitpid-returned')
                self.returncode = r
        return self.returncode

    def wait(self, timeout=None):
        if self.returncode is None:
            if timeout is not None:
                # multiprocessing.connection.wait([self.sentinel], timeout): the sentinel becomes readable when the child exits
                sim, me = cur()
                sim.yield_point(me, 'wait-sentinel')
                if self.proc.returncode is None:
                    sim.block(me, self.proc.exit_wait, timeout, 'wait-sentinel')
                if self.proc.returncode is None:
                    return None
            return self.poll(os.WNOHANG if timeout == 0.0 else 0)
        return self.returncode

    def _send_signal(self, sig):
        if self.proc.returncode is None:
            kill_proc(self.proc, sig)

    def terminate(self):
        self._send_signal(signal.SIGTERM)

    def kill(self):
        self._send_signal(signal.SIGKILL)

    def close(self):
        pass


def _kill_point(proc, me):
    """Harness-planned kill at a named phase of the child (fault injection)."""
    ka = proc.kill_at
    if ka is not None and ka[0] == 'phase' and ka[1] == proc.phase:
        proc.kill_at = None
        kill_proc(proc, ka[2])
        K.sim._die(me)


def run_after_forkers(pid):
    from multiprocessing import util
    items = list(util._afterfork_registry.items())
    items.sort()
    for (index, ident, func), obj in items:
        if _AF_PID.get(index) == pid:
            try:
                func(obj)
            except Exception as e:
                util.info('after forker raised exception %s', e)


def sim_exit_function(proc):
    """multiprocessing.util._exit_function for one simulated process."""
    from multiprocessing import util

    def run(minpriority):
        keys = [k for k in list(util._finalizer_registry) if k[0] is not None and (minpriority is None or k[0] >= minpriority)]
        keys.sort(reverse=True)
        for key in keys:
            fin = util._finalizer_registry.get(key)
            if fin is not None and fin._pid == proc.pid:
                try:
                    fin()
                except Exception:
                    import traceback
                    CHILD_STDERR.append(traceback.format_exc())

    run(0)
    for ch in proc.children:
        if ch.returncode is None and ch.pyobj_parent is not None and ch.pyobj_parent.daemon:
            kill_proc(ch, signal.SIGTERM)
    sim, me = cur()
    for ch in proc.children:
        if ch.returncode is None:
            sim.block(me, ch.exit_wait, None, 'exit-join-child')
    run(None)


def join_nondaemon_threads(proc, me):
    """threading._shutdown for one simulated process."""
    for t in list(proc.threads):
        if t is me or t.state in ('done', 'dead'):
            continue
        th = t.pythread
        if th is None or th.daemon:
            continue
        import threading
        threading.Thread.join(th)


def _close_listeners(proc):
    for lis in [lis for lis in K.listeners.values() if lis.owner is proc]:
        lis.close()


def proc_exit(proc, code):
    sim = K.sim
    sim.log('exit-proc', proc.pid, code)
    _close_listeners(proc)
    proc.returncode = code
    proc.phase = 'exited'
    for fd in list(proc.fds):
        K.close(fd)
    sim.wake_all(proc.exit_wait)
    me = cur()[1]
    for t in proc.threads:
        if t.state not in ('done', 'dead') and t is not me:
            _kill_thread(sim, t)


def _kill_thread(sim, t):
    if t.held_global:
        t.kill_pending = True  # dies as soon as it has released the process-global lock it holds
        return
    if t.state == 'blocked':
        sim._unwait(t)
        t.token += 1
    t.state = 'dead'


def kill_proc(proc, sig):
    sim = K.sim
    if proc.returncode is not None:
        return
    sim.log('kill-proc', proc.pid, int(sig))
    sim.count('proc_killed')
    me = cur()[1]
    for t in proc.threads:
        if t.state in ('done', 'dead'):
            continue
        if t is me:
            t.kill_pending = True  # the running thread belongs to the killed process: it vanishes at its next step
        else:
            _kill_thread(sim, t)
    _close_listeners(proc)
    proc.returncode = -int(sig)
    proc.phase = 'killed'
    for fd in list(proc.fds):
        K.close(fd)
    sim.wake_all(proc.exit_wait)
    # orphaned grandchildren keep running (as in a real OS); daemonic ones are not reaped


def install_process():
    import multiprocessing.context as mctx
    import multiprocessing.process as mpp
    import multiprocessing.util as util

    _orig_cp = mpp._current_process

    def _hook_current_process():
        k = K
        if k is not None:
            p = k.cur_proc()
            if p is not None and p.pyobj is not None:
                return p.pyobj
        return _orig_cp

    def _hook_active_children():
        p = K.cur_proc() if K is not None else None
        if p is None:
            return []
        return [c.pyobj_parent for c in p.children if c.returncode is None and c.pyobj_parent is not None]

    mpp._hook_current_process = _hook_current_process
    mpp._hook_active_children = _hook_active_children
    ns = {}
    exec("def current_process():\n    return _hook_current_process()\n"
         "def active_children():\n    return _hook_active_children()\n", ns)
    # swap the code objects so that every alias (`from multiprocessing.process import current_process`) sees it
    mpp.current_process.__code__ = ns['current_process'].__code__
    mpp.active_children.__code__ = ns['active_children'].__code__

    mctx.SpawnProcess._Popen = staticmethod(SimPopen)

    orig_raf = util.register_after_fork

    def register_after_fork(obj, func):
        before = set(util._afterfork_registry.keys())
        orig_raf(obj, func)
        for k in util._afterfork_registry.keys():
            if k not in before:
                _AF_PID[k[0]] = os.getpid()

    util.register_after_fork = register_after_fork

    def _get_inh(self):
        p = K.cur_proc() if K is not None else None
        if p is not None and p.inheriting:
            return True
        raise AttributeError('_inheriting')

    mpp.BaseProcess._inheriting = property(_get_inh)

    # deterministic hashes for process objects (sets of processes)
    hc = itertools.count(1)
    _binit = mpp.BaseProcess.__init__

    def __init__(self, *a, **k):
        self._sim_hash = next(hc)
        _binit(self, *a, **k)

    mpp.BaseProcess.__init__ = __init__
    mpp.BaseProcess.__hash__ = lambda self: getattr(self, '_sim_hash', 0)


class PerProcessDict:
    """Stands for a class-/module-level dict that is per-process state in reality (each spawned interpreter has its own):
    keys are transparently qualified by the simulated pid."""

    def __init__(self):
        self.d = {}

    def get(self, k, default=None):
        return self.d.get((os.getpid(), k), default)

    def __getitem__(self, k):
        return self.d[(os.getpid(), k)]

    def __setitem__(self, k, v):
        self.d[(os.getpid(), k)] = v

    def __contains__(self, k):
        return (os.getpid(), k) in self.d

    def pop(self, k, *a):
        return self.d.pop((os.getpid(), k), *a)

    def __delitem__(self, k):
        del self.d[(os.getpid(), k)]

    def clear(self):
        pid = os.getpid()
        for k in [k for k in self.d if k[0] == pid]:
            del self.d[k]


def install():
    install_process()
    install_connection()
    install_semlock()
    import multiprocessing.managers as mm
    # BaseProxy._address_to_local maps a manager address to (thread-local connection holder, set of proxy ids): per process
    mm.BaseProxy._address_to_local = PerProcessDict()
    _state['a2l'] = mm.BaseProxy._address_to_local
    shim = type(sys)('signal_shim')
    shim.__dict__.update(signal.__dict__)
    shim.signal = lambda *a, **k: None
    mm.signal = shim


# ======================================================================= per-process logging, FIFOs, shm
class LogShim:
    """Stands for the `logging` module inside mpservice.multiprocessing.context and in harness targets: a simulated
    child process has its own (initially unconfigured) root logger, as a spawned interpreter would."""

    def __getattr__(self, k):
        import logging
        return getattr(logging, k)

    def _mgr(self):
        import logging
        if K is None:
            return None
        p = K.cur_proc()
        if p is None or p is K.main:
            return None
        m = p.log_mgr
        if m is None:
            root = logging.RootLogger(logging.WARNING)
            m = logging.Manager(root)
            m._root = root
            p.log_mgr = m
        return m

    def getLogger(self, name=None):
        import logging
        m = self._mgr()
        if m is None:
            return logging.getLogger(name)
        return m._root if not name else m.getLogger(name)

    def captureWarnings(self, flag):
        pass


proc_logging = LogShim()


class OsShim:
    """`os` as seen by mpservice.pipe: a FIFO namespace on the simulated descriptor table."""

    def __init__(self):
        self.path = self

    def __getattr__(self, k):
        return getattr(os, k)

    # os.path subset
    def abspath(self, p):
        return os.path.abspath(p)

    def dirname(self, p):
        return os.path.dirname(p)

    def exists(self, p):
        return p in K.fifos

    def makedirs(self, p, exist_ok=False):
        return None

    def mkfifo(self, p):
        sim, me = cur()
        sim.yield_point(me, 'mkfifo')
        if p in K.fifos:
            raise FileExistsError(p)
        K.fifos[p] = KPipe(K.pipe_cap, name=p)

    def stat(self, p):
        import stat as st
        if p not in K.fifos:
            raise FileNotFoundError(p)
        return type('S', (), {'st_mode': st.S_IFIFO | 0o644})()

    def open(self, p, flags, mode=0o777):
        sim, me = cur()
        if p not in K.fifos:
            raise FileNotFoundError(p)
        pipe = K.fifos[p]
        acc = flags & 3
        if acc == os.O_RDWR:
            return K.new_fd(pipe, pipe)
        if acc == os.O_RDONLY:
            fd = K.new_fd(pipe, None)
            # opening a FIFO for reading blocks until a writer has it open
            while pipe.nwriters == 0:
                sim.block(me, pipe.rwait, None, 'fifo-open')
            return fd
        fd = K.new_fd(None, pipe)
        sim.wake_all(pipe.rwait)
        return fd


class FakeSharedMemory:
    """Stands for multiprocessing.shared_memory.SharedMemory over an in-memory /dev/shm."""
    _ctr = itertools.count(1)

    def __init__(self, name=None, create=False, size=0):
        if create:
            if name is None:
                name = 'psm_sim_%d' % next(FakeSharedMemory._ctr)
            if name in K.shm:
                raise FileExistsError(name)
            K.shm[name] = bytearray(size)
        else:
            if name not in K.shm:
                raise FileNotFoundError(2, 'No such file or directory', '/' + str(name))
        self._name = name
        self._buf = memoryview(K.shm[name])
        self._closed = False

    @property
    def name(self):
        return self._name

    @property
    def size(self):
        return len(K.shm[self._name]) if self._name in K.shm else len(self._buf)

    @property
    def buf(self):
        return self._buf

    def close(self):
        if not self._closed:
            self._closed = True
            self._buf.release()

    def unlink(self):
        if self._name not in K.shm:
            raise FileNotFoundError(2, 'No such file or directory', '/' + str(self._name))
        del K.shm[self._name]

    def __reduce__(self):
        return (FakeSharedMemory, (self._name, False, 0))


def install_post_import():
    """Seams inside mpservice modules (module globals), after mpservice has been imported."""
    import mpservice.multiprocessing.context as ctxmod
    ctxmod.logging = proc_logging
    import mpservice.pipe as pipemod
    pipemod.os = OsShim()
    try:
        import mpservice.multiprocessing.server_process as sp
        if hasattr(sp, 'SharedMemory'):
            sp.SharedMemory = FakeSharedMemory
    except Exception:
        pass
