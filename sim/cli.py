import argparse
import json
import os
import sys


def main(argv):
    if argv and argv[0] == 'selftest':
        from sim import selftest
        return selftest.main(argv[1:])
    ap = argparse.ArgumentParser()
    ap.add_argument('prop')
    ap.add_argument('tier', nargs='?', default='quick')
    ap.add_argument('--replay')
    ap.add_argument('--runs', type=int)
    ap.add_argument('--wall', type=float)
    ap.add_argument('--jobs', type=int)
    ap.add_argument('--seed', type=int)
    ap.add_argument('--one', type=int, help='run case index N once, verbosely')
    ap.add_argument('--digests', help='write "index digest" lines for the first --runs cases to this file')
    a = ap.parse_args(argv)
    from sim import runner
    prop = a.prop.upper()
    base_seed = a.seed if a.seed is not None else int(os.environ.get('VERIF_SEED', '0') or 0)
    tier = os.environ.get('VERIF_TIER') if a.tier is None else a.tier
    if a.replay:
        check = runner.load_check(prop)
        runner.setup(getattr(check, 'NEEDS', ()))
        doc, res = runner.replay_file(check, a.replay, verbose=True)
        want = doc['violation']['signature']
        for line in res.get('trace') or []:
            print(line)
        print('--- replay of', a.replay)
        print('scenario:', json.dumps(doc['scenario']))
        print('sim:', json.dumps(doc['sim']))
        print('class:', res['cls'], 'verdict:', res['verdict'], 'digest:', res['digest'], '(recorded', doc.get('digest'), ')')
        for sig, detail in res['violations']:
            print('violation:', sig)
            print(json.dumps(detail, indent=1)[:6000])
        if res['cls'] == 'harness-error':
            print(res.get('report'))
            return 2
        if any(s == want for s, _ in res['violations']):
            print(f'VIOLATION property={prop} replay={a.replay}')
            return 1
        print('recorded violation did not reproduce')
        return 0
    if a.one is not None:
        check = runner.load_check(prop)
        runner.setup(getattr(check, 'NEEDS', ()))
        case = runner.make_case(check, prop, tier, base_seed, a.one)
        print('case:', json.dumps(case))
        res = runner.run_forked(check, case, trace=True, quiet=False)
        tr = res.pop('trace', None) or []
        for line in tr[-200:]:
            print(line)
        res.pop('decisions', None)
        print(json.dumps(res, indent=1)[:8000])
        return 0
    if a.digests:
        check = runner.load_check(prop)
        runner.setup(getattr(check, 'NEEDS', ()))
        with open(a.digests, 'w') as f:
            for i in range(a.runs or 50):
                case = runner.make_case(check, prop, tier, base_seed, i)
                res = runner.run_forked(check, case)
                f.write(f'{i} {res["cls"]} {res["verdict"]} {res["digest"]} {res["steps"]}\n')
        return 0
    return runner.run_check(prop, tier, base_seed, jobs=a.jobs, runs=a.runs, wall=a.wall)
