"""Deterministic scheduler core: baton-passing real threads, virtual clock, decision stream.

One `Sim` = one run. Exactly one simulated thread executes at a time (it holds "the baton" = its gate
lock is released).  Every choice that influences the execution goes through `Sim.choose*`, which draws
from a PRNG seeded by the run seed in search mode and reads back a recorded list in replay mode.
Logging (`Sim.log`) never draws and never reads a real clock.

This module knows nothing about mpservice.  Interposition on the stdlib lives in `threads.py`,
`aio.py`, `osproc.py`.
"""
import _thread
import gc
import hashlib
import heapq
import random
import sys
import time as _time_mod
import traceback

_real_allocate_lock = _thread.allocate_lock
_real_start_new_thread = _thread.start_new_thread
_real_get_ident = _thread.get_ident
real_sleep = _time_mod.sleep
real_monotonic = _time_mod.monotonic
real_perf_counter = _time_mod.perf_counter
real_time = _time_mod.time

PARK_FINISHED_THREADS = True
thread_exit_hook = None  # set by threads.install(): releases thread-local storage while the ending thread still holds the baton
_SIM = None  # the active Sim (at most one per OS process)
_BY_IDENT = {}  # real thread ident -> SimThread

# speed weights for the starvation-weighted strategy (index 0 = normal)
WEIGHTS = (1.0, 1.0, 1.0, 0.05, 0.002)


class SimAbort(BaseException):
    """Raised inside simulated threads once the run has a verdict; unwinds them quietly."""


class HarnessError(Exception):
    pass


def cur():
    """(sim, simthread) if the calling OS thread is a simulated thread of the active sim."""
    s = _SIM
    if s is None:
        return None, None
    t = _BY_IDENT.get(_real_get_ident())
    if t is None:
        return None, None
    return s, t


def active():
    return _SIM


class SimThread:
    __slots__ = ('idx', 'name', 'gate', 'state', 'wake', 'token', 'sentinel', 'ident', 'weight',
                 'waiting_on', 'proc', 'pythread', 'why', 'held_global', 'kill_pending', 'prio',
                 'role', 'steps', 'deadline', '__weakref__')

    def __init__(self, idx, name):
        self.idx = idx
        self.name = name
        self.gate = _real_allocate_lock()
        self.gate.acquire()
        self.state = 'runnable'  # runnable | blocked | done | dead
        self.wake = None
        self.token = 0
        self.sentinel = None
        self.ident = None
        self.weight = 1.0
        self.prio = 0.0
        self.waiting_on = None
        self.proc = None
        self.pythread = None
        self.why = None
        self.held_global = 0
        self.kill_pending = None
        self.role = None
        self.steps = 0
        self.deadline = None

    def __repr__(self):
        return f'<SimThread {self.idx} {self.name} {self.state}>'


DEFAULT_CFG = dict(
    strategy='random',  # random | weighted | sticky | pct
    p_switch=0.2,
    time_mode='exact',  # exact | racy
    p_racy=0.05,
    racy_horizon=0.1,  # only timers due within this many virtual seconds may fire while threads are runnable
    line_p=0.0,  # probability of pre-empting at a line event in mpservice code
    max_steps=400_000,
    max_time=1000.0,  # virtual seconds after start; exceeded => no-progress
    pct_depth=2,
    pct_len=2000,
)


class Sim:
    def __init__(self, seed, cfg=None, decisions=None, trace=False):
        c = dict(DEFAULT_CFG)
        if cfg:
            c.update(cfg)
        self.cfg = c
        self.seed = seed
        self.rng = random.Random(seed)
        self.replay = list(decisions) if decisions is not None else None
        self.rpos = 0
        self.decisions = []
        self.strategy = c['strategy']
        self.p_switch = c['p_switch']
        self.time_mode = c['time_mode']
        self.p_racy = c['p_racy']
        self.racy_horizon = c['racy_horizon']
        self.line_p = c['line_p']
        self.max_steps = c['max_steps']
        self.t0 = 1000.0
        self.now = self.t0
        self.max_time = self.t0 + c['max_time']
        self.threads = []
        self.timers = []  # (when, seq, thread, token)
        self.seq = 0
        self.steps = 0
        self.switches = 0
        self.verdict = None
        self.aborting = False
        self.done_lock = _real_allocate_lock()
        self.done_lock.acquire()
        self.h = hashlib.blake2b(digest_size=8)
        self.trace = [] if trace else None
        self.current = None
        self.invariants = []  # callables () -> None | (signature, detail)
        self.violations = []  # (signature, detail)
        self.harness_errors = []  # tracebacks of programming errors of the harness itself (checks.common.note_exc)
        self.counters = {}
        self.max_runnable = 0
        self.multi_steps = 0  # steps at which >=2 threads were runnable
        self.sites = set()
        self.on_thread_exc = None
        self.thread_excs = []  # (thread idx, name, exc type, text)
        self.line_gap = None
        self.kernel = None
        self.ctx = None
        self.racy_fired = 0
        self._pct_points = None
        self._in_gc = False
        self._in_inv = False
        self._plan = []
        self._held = {}
        self.p_slowstart = c.get('p_slowstart', 0.0)
        self.p_starve = c.get('p_starve', 0.0)

    # ---------------------------------------------------------------- logging (no rng, no clock)
    def log(self, *a):
        s = ' '.join(map(str, a))
        self.h.update(s.encode())
        self.h.update(b'\n')
        if self.trace is not None:
            self.trace.append('%.6f %s' % (self.now - self.t0, s))

    def count(self, key, n=1):
        self.counters[key] = self.counters.get(key, 0) + n

    probe = count

    def digest(self):
        return self.h.hexdigest()

    # ---------------------------------------------------------------- decisions
    def choose(self, n, p0=None):
        """Decision in 0..n-1; 0 is the 'simplest' option. p0 = probability of 0 in search mode."""
        if n <= 1:
            return 0
        if self.replay is not None:
            v = self.replay[self.rpos] % n if self.rpos < len(self.replay) else 0
            self.rpos += 1
        elif p0 is not None:
            v = 0 if self.rng.random() < p0 else 1 + self.rng.randrange(n - 1)
        else:
            v = self.rng.randrange(n)
        self.decisions.append(v)
        return v

    def choose_weighted(self, weights):
        n = len(weights)
        if n <= 1:
            return 0
        if self.replay is not None:
            v = self.replay[self.rpos] % n if self.rpos < len(self.replay) else 0
            self.rpos += 1
        else:
            tot = 0.0
            for w in weights:
                tot += w
            r = self.rng.random() * tot
            v = n - 1
            acc = 0.0
            for i, w in enumerate(weights):
                acc += w
                if r < acc:
                    v = i
                    break
        self.decisions.append(v)
        return v

    def chance(self, p):
        """True with probability p (decision; replay default False)."""
        return self.choose(2, p0=1.0 - p) == 1

    def pick_from(self, seq, p0=None):
        return seq[self.choose(len(seq), p0)]

    # ---------------------------------------------------------------- timers
    def add_timer(self, t, delay):
        t.token += 1
        self.seq += 1
        when = self.now + (delay if delay > 0.0 else 0.0)
        t.deadline = when
        heapq.heappush(self.timers, (when, self.seq, t, t.token))

    def _drop_stale_timers(self):
        tm = self.timers
        while tm:
            when, _, t, tok = tm[0]
            if t.state == 'blocked' and t.token == tok:
                return True
            heapq.heappop(tm)
        return False

    def fire_next_timer(self):
        """Advance the clock to the earliest pending timer and fire it - together with every other timer due at that same
        instant: events at the same virtual instant are concurrent, so all their threads become runnable at once and the
        scheduler (a decision) orders them, exactly like threads that wake up at the same moment on a real machine."""
        tm = self.timers
        if not self._drop_stale_timers():
            return False
        first = heapq.heappop(tm)
        when = first[0]
        batch = [first]
        while tm and tm[0][0] == when:
            e = heapq.heappop(tm)
            if e[2].state == 'blocked' and e[2].token == e[3]:
                batch.append(e)
        if len(batch) > 1:
            self.count('timer_tie')
            if self.chance(0.5):
                # "timeout race" plan: of the threads woken at this same instant, let one run for a few (0..7) scheduling points -
                # long enough to conclude something from its timeout, not long enough to act on it - then run another one for a long
                # uninterrupted burst. This is the schedule behind every check-then-act bug after a timed wait (poll expired, then
                # "is the producer still alive?"): each half is unlikely under a memoryless scheduler, together they almost never happen.
                i = self.choose(len(batch))
                j = (i + 1 + self.choose(len(batch) - 1)) % len(batch)
                self._plan = [(batch[i][2], self.choose(8)), (batch[j][2], 400)]
                self.count('timeout_race_plan')
        if when > self.now:
            self.now = when
        for _, _, t, tok in batch:
            t.state = 'runnable'
            t.wake = 'timeout'
            self._unwait(t)
        return True

    def _unwait(self, t):
        ws = t.waiting_on
        if ws is not None:
            for w in ws:
                try:
                    w.remove(t)
                except ValueError:
                    pass
            t.waiting_on = None

    # ---------------------------------------------------------------- verdicts
    def finish(self, verdict):
        if self.verdict is None:
            self.verdict = verdict
        self.aborting = True
        try:
            self.done_lock.release()
        except RuntimeError:
            pass

    def violation(self, signature, detail=None, fatal=False):
        """Record an oracle violation. fatal => end the run now."""
        self.violations.append((signature, detail))
        self.log('VIOLATION', signature)
        if fatal:
            self.finish(('violation', signature))
            me = _BY_IDENT.get(_real_get_ident())
            if me is not None:
                raise SimAbort()

    def blocked_report(self):
        """[(idx, name, state, why, [frames...])] for every thread that is not done."""
        frames = sys._current_frames()
        out = []
        for t in self.threads:
            if t.state in ('done',):
                continue
            fr = frames.get(t.ident)
            stack = []
            if fr is not None:
                for f, ln in traceback.walk_stack(fr):
                    fn = f.f_code.co_filename
                    if '/sim/' in fn and ('core.py' in fn or 'threads.py' in fn):
                        continue
                    stack.append((fn, ln, f.f_code.co_name))
            out.append((t.idx, t.name, t.state, t.why, stack))
        return out

    # ---------------------------------------------------------------- scheduling
    def _check_invariants(self):
        # invariants are harness observations: no pre-emption (line events) while they are evaluated
        if self._in_inv:
            return
        self._in_inv = True
        try:
            for inv in list(self.invariants):
                r = inv()
                if r is not None:
                    if inv in self.invariants:
                        self.invariants.remove(inv)
                    self.violation(r[0], r[1])
        finally:
            self._in_inv = False

    def pick(self, me):
        """Choose the next thread to run. `me` may be runnable or blocked/done/dead."""
        self.steps += 1
        if self.steps > self.max_steps:
            self.finish(('step-cap', self.steps))
            return None
        if self.invariants:
            self._check_invariants()
        threads = self.threads
        while True:
            rs = [t for t in threads if t.state == 'runnable']
            if rs:
                if self.time_mode == 'racy' and self._drop_stale_timers() and \
                        self.timers[0][0] - self.now <= self.racy_horizon and self.choose(2, p0=1.0 - self.p_racy):
                    self.racy_fired += 1
                    self.fire_next_timer()
                    if self.now > self.max_time:
                        self.finish(('no-progress', self.now - self.t0))
                        return None
                    continue
                break
            if not self.fire_next_timer():
                self.finish(('deadlock',))
                return None
            if self.now > self.max_time:
                self.finish(('no-progress', self.now - self.t0))
                return None
        n = len(rs)
        if n > self.max_runnable:
            self.max_runnable = n
        if n == 1:
            return rs[0]
        self.multi_steps += 1
        while self._plan:
            t, rem = self._plan[0]
            if rem > 0 and t.state == 'runnable':
                self._plan[0] = (t, rem - 1)
                return t
            self._plan.pop(0)
        # starvation episodes (any strategy): a thread that could go on is held back for K scheduling points while others run - as
        # long as somebody else can run. This is what a loaded machine does to a thread between an unlocked test and the wait
        # that follows it, or to a thread that has just been created; memoryless switching practically never holds one thread
        # back for that long. Several threads can be held at once (a new thread at birth, another one later).
        held = self._held
        if held:
            free = [x for x in rs if held.get(x, 0) <= 0]
            if free:
                for x in rs:
                    if held.get(x, 0) > 0:
                        held[x] -= 1
                        if held[x] <= 0:
                            del held[x]
            else:
                held.clear()  # everybody who can run is being held: the holds end
                free = rs
        else:
            free = rs
        if self.p_starve and me.state == 'runnable' and me not in held and self.choose(2, p0=1.0 - self.p_starve):
            held[me] = (20, 100, 400)[self.choose(3)]
            self.count('starvation_episode')
            free = [x for x in free if x is not me]
            if not free:
                # everybody else who could run is being held: their holds end here (hand-over: A was held back while B ran, now
                # B is held back while A runs)
                for x in list(held):
                    if x is not me:
                        del held[x]
                free = [x for x in rs if x is not me]
        rs = free
        n = len(rs)
        if n == 1:
            return rs[0]
        me_free = me.state == 'runnable' and me not in held
        strat = self.strategy
        if strat == 'pct':
            return self._pick_pct(me, rs)
        if me_free:
            order = [me] + [t for t in rs if t is not me]
            if strat == 'weighted':
                # stay with probability 1-p_switch*, else weighted draw among all runnable
                if not self.choose(2, p0=1.0 - self.p_switch):
                    return me
                return order[self.choose_weighted([t.weight for t in order])]
            return order[self.choose(n, p0=1.0 - self.p_switch)]
        if strat == 'weighted':
            return rs[self.choose_weighted([t.weight for t in rs])]
        return rs[self.choose(n)]

    def _pick_pct(self, me, rs):
        # PCT: run the highest-priority runnable thread; at d random step indices lower the
        # running thread's priority below everything else.
        if self._pct_points is None:
            d = self.cfg['pct_depth']
            k = self.cfg['pct_len']
            self._pct_points = {}
            for i in range(d):
                self._pct_points[1 + self.choose(k)] = -(i + 1)
        p = self._pct_points.get(self.multi_steps)
        if p is not None and me.state == 'runnable':
            me.prio = p
        best = rs[0]
        for t in rs:
            if t.prio > best.prio:
                best = t
        return best

    def switch(self, me, why):
        nxt = self.pick(me)
        if nxt is None:
            # verdict reached: park forever (the OS process will exit)
            me.gate.acquire()
            raise SimAbort()
        if nxt is me:
            return
        self.switches += 1
        self.log('sw', me.idx, nxt.idx, why)
        self.current = nxt
        nxt.steps += 1
        nxt.gate.release()
        me.gate.acquire()
        if self.aborting:
            raise SimAbort()
        if me.state == 'dead':
            raise SimAbort()

    def yield_point(self, me, why):
        if self.aborting:
            raise SimAbort()
        if me.kill_pending and not me.held_global:
            self._die(me)
        self.switch(me, why)

    def _die(self, me):
        # a thread of a killed simulated process reached a point where it can vanish
        me.state = 'dead'
        me.kill_pending = None
        self.switch(me, 'die')
        raise SimAbort()

    def block(self, me, waitlist, timeout, why):
        """Block `me` on waitlist(s) until woken or timeout (None = forever). Returns wake reason."""
        if self.aborting:
            raise SimAbort()
        me.state = 'blocked'
        me.wake = None
        me.why = why
        if waitlist is None:
            me.waiting_on = None
        else:
            wls = list(waitlist) if isinstance(waitlist, tuple) else [waitlist]
            me.waiting_on = wls
            for w in wls:
                w.append(me)
        if timeout is not None:
            self.add_timer(me, timeout)
        else:
            me.token += 1
            me.deadline = None
        self.switch(me, why)
        me.why = None
        return me.wake

    def wake_one(self, waitlist, reason='signal'):
        if not waitlist:
            return None
        i = self.choose(len(waitlist)) if len(waitlist) > 1 else 0
        t = waitlist.pop(i)
        self._unwait(t)
        if t.state == 'blocked':
            t.state = 'runnable'
            t.wake = reason
            t.token += 1
        return t

    def wake_all(self, waitlist, reason='signal'):
        while waitlist:
            t = waitlist.pop(0)
            self._unwait(t)
            if t.state == 'blocked':
                t.state = 'runnable'
                t.wake = reason
                t.token += 1

    def sleep(self, secs):
        sim, me = cur()
        self.block(me, None, max(0.0, secs), 'sleep')

    # ---------------------------------------------------------------- GC as a decision
    def gc_point(self, p=0.3):
        """Harness-placed point where a cyclic GC may run (decision)."""
        if self._in_gc or self.aborting:
            return
        if self.chance(p):
            self.force_gc()

    def force_gc(self):
        if self._in_gc:
            return
        self._in_gc = True
        try:
            self.count('gc')
            self.log('gc')
            gc.collect()
        finally:
            self._in_gc = False

    # ---------------------------------------------------------------- threads
    def spawn(self, func, args=(), kwargs=None, name=None):
        t = SimThread(len(self.threads), name or f'T{len(self.threads)}')
        if self.strategy == 'weighted':
            t.weight = WEIGHTS[self.choose(len(WEIGHTS))]
        elif self.strategy == 'pct':
            t.prio = 1.0 + self.choose(1000) + t.idx * 1e-6
        self.threads.append(t)
        if self.p_slowstart and t.idx > 0 and self.choose(2, p0=1.0 - self.p_slowstart):
            # a new thread that does not get the CPU for a long while after its creation
            self._held[t] = (100, 400, 1500)[self.choose(3)]
            self.count('slow_start_thread')
        kwargs = kwargs or {}
        parent = _BY_IDENT.get(_real_get_ident())
        if parent is not None:
            t.proc = parent.proc
            if t.proc is not None:
                t.proc.threads.append(t)
        th = getattr(func, '__self__', None)
        if th is not None:
            t.pythread = th

        # The callable and its arguments are handed over through a holder that is emptied before the thread body runs, and
        # every local reference is dropped BEFORE the baton is passed on at thread end: otherwise the dying OS thread would
        # release those objects (running finalizers that use simulated primitives) concurrently with the next baton holder.
        holder = [func, args, kwargs]
        func = args = kwargs = None

        def body():
            t.gate.acquire()
            t.ident = _real_get_ident()
            _BY_IDENT[t.ident] = t
            f, a, k = holder
            del holder[:]
            try:
                if self.aborting or t.state == 'dead':
                    return
                try:
                    f(*a, **k)
                finally:
                    f = a = k = None
            except SimAbort:
                return
            except BaseException as e:  # noqa
                self.log('thread-exc', t.idx, type(e).__name__)
                self.thread_excs.append((t.idx, t.name, type(e).__name__, traceback.format_exc()))
                if t.idx == 0:
                    self.finish(('root-exc', type(e).__name__, traceback.format_exc()))
                    return
                e = None
            if thread_exit_hook is not None and not self.aborting:
                try:
                    thread_exit_hook()
                except SimAbort:
                    return
            self._thread_end(t)
            if PARK_FINISHED_THREADS:
                # Never let the OS thread run its interpreter-level teardown while the simulation goes on: whatever CPython
                # releases there (thread state, leftovers of thread-local storage) would happen concurrently with the next
                # baton holder. The simulated thread is 'done'; its OS thread just sleeps until the process exits.
                t.gate.acquire()

        _real_start_new_thread(body, ())
        return t

    def _thread_end(self, t):
        try:
            if self.aborting:
                return
            if t.sentinel is not None and t.sentinel._locked:
                t.sentinel.release_nosched()
            t.state = 'done'
            self.log('end', t.idx)
            if t.idx == 0:
                self.finish(('ok',))
                return
            nxt = self.pick(t)
            if nxt is not None:
                self.current = nxt
                self.log('sw', t.idx, nxt.idx, 'end')
                nxt.gate.release()
        except SimAbort:
            pass

    def run(self, func, *args):
        global _SIM
        _SIM = self
        _BY_IDENT.clear()
        gc.disable()
        root = self.spawn(func, args, name='root')
        self.current = root
        root.gate.release()
        self.done_lock.acquire()
        return self.verdict

    def live_threads(self):
        return [t for t in self.threads if t.state not in ('done', 'dead')]


# ======================================================================= primitives
class SimLock:
    """Replacement for _thread.lock. Dual-mode: a real lock when used from a non-simulated thread."""

    __slots__ = ('_locked', '_waiters', '_real', '_global', '_owner', '__weakref__')

    def __init__(self):
        self._locked = False
        self._waiters = []
        self._real = None
        self._global = _SIM is None  # created outside a run => process-global (shared by sim processes)
        self._owner = None

    def _reallock(self):
        if self._real is None:
            self._real = _real_allocate_lock()
        return self._real

    def acquire(self, blocking=True, timeout=-1):
        sim, me = cur()
        if sim is None:
            return self._reallock().acquire(blocking, timeout)
        sim.yield_point(me, 'acq')
        if not self._locked:
            self._locked = True
            if self._global:
                self._owner = me
                me.held_global += 1
            return True
        if not blocking:
            return False
        deadline = None if (timeout is None or timeout < 0) else sim.now + timeout
        while True:
            rem = None if deadline is None else max(0.0, deadline - sim.now)
            r = sim.block(me, self._waiters, rem, 'lock')
            if not self._locked:
                self._locked = True
                if self._global:
                    self._owner = me
                    me.held_global += 1
                return True
            if r == 'timeout':
                return False
            # else: another thread barged in between the wake-up and now; wait again

    __enter__ = acquire

    def release_nosched(self):
        if not self._locked:
            raise RuntimeError('release unlocked lock')
        self._locked = False
        if self._global and self._owner is not None:
            self._owner.held_global -= 1
            self._owner = None
        s = _SIM
        if s is not None:
            s.wake_one(self._waiters)

    def release(self):
        sim, me = cur()
        if sim is None:
            return self._reallock().release()
        self.release_nosched()
        sim.yield_point(me, 'rel')

    def __exit__(self, *a):
        self.release()

    def locked(self):
        sim, me = cur()
        if sim is None:
            return self._reallock().locked()
        return self._locked

    def _at_fork_reinit(self):
        self._locked = False
        self._waiters = []
        self._owner = None
        self._real = None

    def __repr__(self):
        return f'<SimLock locked={self._locked} waiters={len(self._waiters)}>'


# ======================================================================= line-level pre-emption
_LINE_TOOL = 3
_line_enabled = False


def enable_line_preemption(path_prefixes):
    """Pre-empt between source lines of code objects whose file starts with one of path_prefixes.

    Uses sys.monitoring (PEP 669).  The decision is a geometric gap: one decision per pre-emption,
    drawn by the active sim, so replay is exact and the decision list stays short.
    """
    global _line_enabled
    if _line_enabled:
        return
    _line_enabled = True
    mon = sys.monitoring
    mon.use_tool_id(_LINE_TOOL, 'detsim')
    prefixes = tuple(path_prefixes)

    def on_line(code, lineno):
        s = _SIM
        if s is None or s.aborting or s.line_p <= 0.0 or s._in_inv:
            return
        me = _BY_IDENT.get(_real_get_ident())
        if me is None:
            return
        g = s.line_gap
        if g is None:
            g = s.line_gap = _draw_gap(s)
        if g > 0:
            s.line_gap = g - 1
            return
        s.line_gap = _draw_gap(s)
        s.count('line_preempt')
        if me.kill_pending and not me.held_global:
            s._die(me)
        s.switch_away(me)

    def on_start(code, off):
        if code.co_filename.startswith(prefixes):
            mon.set_local_events(_LINE_TOOL, code, mon.events.LINE)
        return mon.DISABLE

    mon.register_callback(_LINE_TOOL, mon.events.LINE, on_line)
    mon.register_callback(_LINE_TOOL, mon.events.PY_START, on_start)
    mon.set_events(_LINE_TOOL, mon.events.PY_START)


_GAP_F = (8.0, 0.05, 0.125, 0.25, 0.5, 1.0, 2.0, 4.0)


def _draw_gap(s):
    # one decision per pre-emption: number of line events to let pass, as a multiple of the mean
    # gap 1/line_p; decision 0 (the replay default) is the longest gap, i.e. fewest pre-emptions
    return int(_GAP_F[s.choose(8)] / s.line_p)


def _switch_away(self, me):
    """Forced pre-emption at a line event: hand the baton to some other runnable thread if any."""
    if self.aborting:
        raise SimAbort()
    self.steps += 1
    if self.steps > self.max_steps:
        self.finish(('step-cap', self.steps))
        me.gate.acquire()
        raise SimAbort()
    if self.invariants:
        self._check_invariants()
    rs = [t for t in self.threads if t.state == 'runnable' and t is not me]
    if not rs:
        return
    if len(rs) + 1 > self.max_runnable:
        self.max_runnable = len(rs) + 1
    self.multi_steps += 1
    if self.strategy == 'weighted':
        nxt = rs[self.choose_weighted([t.weight for t in rs])]
    else:
        nxt = rs[self.choose(len(rs))]
    self.switches += 1
    self.log('sw', me.idx, nxt.idx, 'line')
    self.current = nxt
    nxt.steps += 1
    nxt.gate.release()
    me.gate.acquire()
    if self.aborting or me.state == 'dead':
        raise SimAbort()


Sim.switch_away = _switch_away
