"""asyncio under the simulator: the real BaseEventLoop with a fake selector that blocks in the
scheduler, plus in-memory stream transports standing for Unix-socket connections."""
import asyncio
from asyncio import base_events, events, streams

from . import core
from .core import cur


class _SimSelector:
    def __init__(self, loop):
        self.loop = loop
        self.waiters = []
        self.woken = False

    def select(self, timeout=None):
        sim, me = cur()
        if sim is None:
            raise RuntimeError('SimEventLoop used outside the simulator')
        if self.woken:
            self.woken = False
            sim.yield_point(me, 'sel')
            return []
        if timeout is not None and timeout <= 0:
            sim.yield_point(me, 'sel0')
            return []
        sim.block(me, self.waiters, timeout, 'select')
        self.woken = False
        return []

    def wake(self):
        self.woken = True
        s = core._SIM
        if s is not None:
            s.wake_one(self.waiters)

    def close(self):
        pass


class SimEventLoop(base_events.BaseEventLoop):
    def __init__(self):
        super().__init__()
        self._selector = _SimSelector(self)

    def _process_events(self, event_list):
        pass

    def _write_to_self(self):
        self._selector.wake()

    def _make_self_pipe(self):
        pass


class SimPolicy(events.BaseDefaultEventLoopPolicy):
    _loop_factory = SimEventLoop


# ------------------------------------------------------------------------------------------------
# in-memory stream transports (for mpservice.socket)
LISTENERS = {}
HI, LO = 65536, 16384


class NetCfg:
    frag = 0.5  # probability that a write is fragmented
    delays = (0, 0, 0, 0.0001, 0.001, 0.01)


class SimTransport(asyncio.Transport):
    def __init__(self, loop, protocol, label):
        super().__init__()
        self._loop = loop
        self._protocol = protocol
        self.label = label
        self.peer = None
        self._closing = False
        self._inflight = 0
        self._paused = False
        self._q = []
        self._closed_sent = False
        self._pumping = False

    def get_extra_info(self, name, default=None):
        return {'peername': 'sim-peer', 'sockname': 'sim-sock'}.get(name, default)

    def is_closing(self):
        return self._closing

    def get_write_buffer_size(self):
        return self._inflight

    def get_protocol(self):
        return self._protocol

    def write(self, data):
        if self._closing or not data:
            return
        sim = core._SIM
        data = bytes(data)
        i = 0
        n_total = len(data)
        while i < n_total:
            n = n_total - i
            if n > 1 and sim.chance(NetCfg.frag):
                k = sim.choose(4)
                if k == 0:
                    n = 1 + sim.choose(min(n, 64))
                elif k == 1:
                    n = 1 + sim.choose(min(n, 9))
                else:
                    n = 1 + sim.choose(n)
                sim.count('net_fragment')
            self._q.append(data[i:i + n])
            i += n
        self._inflight += n_total
        if self._inflight > HI and not self._paused:
            self._paused = True
            sim.count('net_pause_writing')
            self._protocol.pause_writing()
        self._pump()

    def _pump(self):
        if self._pumping or (not self._q and not (self._closing and not self._closed_sent)):
            return
        self._pumping = True
        sim = core._SIM
        delay = NetCfg.delays[sim.choose(len(NetCfg.delays))]
        peer = self.peer

        def deliver():
            if self._q:
                c = self._q.pop(0)
                if not peer._closing:
                    peer._protocol.data_received(c)
                self._loop.call_soon_threadsafe(self._acked, len(c))
            elif self._closing and not self._closed_sent:
                self._closed_sent = True
                self._loop.call_soon_threadsafe(self._unpump)
                if not peer._closing:
                    keep = peer._protocol.eof_received()
                    if not keep:
                        peer.close()

        def sched():
            if delay:
                peer._loop.call_later(delay, deliver)
            else:
                deliver()

        try:
            peer._loop.call_soon_threadsafe(sched)
        except RuntimeError:
            self._pumping = False  # peer loop closed

    def _unpump(self):
        self._pumping = False

    def _acked(self, n):
        self._inflight -= n
        self._pumping = False
        if self._paused and self._inflight <= LO:
            self._paused = False
            self._protocol.resume_writing()
        self._pump()

    def close(self):
        if self._closing:
            return
        self._closing = True
        self._loop.call_soon(self._protocol.connection_lost, None)
        self._pump()

    abort = close

    def can_write_eof(self):
        return False

    def pause_reading(self):
        pass

    def resume_reading(self):
        pass


class SimServer:
    def __init__(self, loop, cb, path):
        self.loop = loop
        self.cb = cb
        self.path = path

        class S:
            def getsockname(s):
                return path

        self.sockets = [S()]
        self._fut = None

    async def __aenter__(self):
        return self

    async def __aexit__(self, *a):
        self.close()

    def close(self):
        LISTENERS.pop(self.path, None)

    def is_serving(self):
        return self.path in LISTENERS

    async def wait_closed(self):
        return None

    async def serve_forever(self):
        self._fut = self.loop.create_future()
        try:
            await self._fut
        finally:
            self.close()


async def start_unix_server(cb, path=None, **kw):
    loop = asyncio.get_running_loop()
    s = SimServer(loop, cb, path)
    LISTENERS[path] = s
    return s


async def open_unix_connection(path=None, **kw):
    s = LISTENERS.get(path)
    if s is None:
        raise FileNotFoundError(path)
    loop = asyncio.get_running_loop()
    limit = kw.get('limit', 2 ** 16)
    reader = streams.StreamReader(limit=limit, loop=loop)
    protocol = streams.StreamReaderProtocol(reader, loop=loop)
    ct = SimTransport(loop, protocol, 'c')
    ready = loop.create_future()

    def make_server_side():
        sreader = streams.StreamReader(limit=2 ** 16, loop=s.loop)
        sproto = streams.StreamReaderProtocol(sreader, s.cb, loop=s.loop)
        st = SimTransport(s.loop, sproto, 's')
        st.peer = ct
        ct.peer = st
        sproto.connection_made(st)
        loop.call_soon_threadsafe(ready.set_result, None)

    s.loop.call_soon_threadsafe(make_server_side)
    await ready
    protocol.connection_made(ct)
    writer = streams.StreamWriter(ct, protocol, reader, loop)
    return reader, writer


def install():
    asyncio.set_event_loop_policy(SimPolicy())


def install_net():
    asyncio.start_unix_server = start_unix_server
    asyncio.open_unix_connection = open_unix_connection
