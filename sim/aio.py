"""asyncio under the simulator: the real BaseEventLoop with a fake selector that blocks in the
scheduler, plus in-memory stream transports standing for Unix-socket connections."""
import asyncio
from asyncio import base_events, events, streams

from . import core
from .core import cur


class _SimSelector:
    def __init__(self, loop):
        self.loop = loop
        self.waiters = []
        self.woken = False

    def select(self, timeout=None):
        sim, me = cur()
        if sim is None:
            raise RuntimeError('SimEventLoop used outside the simulator')
        if self.woken:
            self.woken = False
            sim.yield_point(me, 'sel')
            return []
        if timeout is not None and timeout <= 0:
            sim.yield_point(me, 'sel0')
            return []
        sim.block(me, self.waiters, timeout, 'select')
        self.woken = False
        return []

    def wake(self):
        self.woken = True
        s = core._SIM
        if s is not None:
            s.wake_one(self.waiters)

    def close(self):
        pass


class SimEventLoop(base_events.BaseEventLoop):
    def __init__(self):
        super().__init__()
        self._selector = _SimSelector(self)

    def _process_events(self, event_list):
        pass

    def _write_to_self(self):
        self._selector.wake()

    def _make_self_pipe(self):
        pass


class SimPolicy(events.BaseDefaultEventLoopPolicy):
    _loop_factory = SimEventLoop


# ------------------------------------------------------------------------------------------------
# in-memory stream transports (for mpservice.socket)
LISTENERS = {}
HI, LO = 65536, 16384


class NetCfg:
    frag = 0.5  # probability that a write is fragmented
    delays = (0, 0, 0, 0.0001, 0.001, 0.01)


class SimTransport(asyncio.Transport):
    def __init__(self, loop, protocol, label):
        super().__init__()
        self._loop = loop
        self._protocol = protocol
        self.label = label
        self.peer = None
        self._closing = False
        self._inflight = 0
        self._paused = False
        self._q = []
        self._closed_sent = False
        self._pumping = False

    def get_extra_info(self, name, default=None):
        return {'peername': 'sim-peer', 'sockname': 'sim-sock'}.get(name, default)

    def is_closing(self):
        return self._closing

    def get_write_buffer_size(self):
        return self._inflight

    def get_protocol(self):
        return self._protocol

    def write(self, data):
        if self._closing or not data:
            return
        sim = core._SIM
        data = bytes(data)
        n_total = len(data)
        cuts = set()
        if n_total > 1 and sim.chance(NetCfg.frag):
            # up to 6 cut points: some inside the first bytes (the header line), the others anywhere
            for _ in range(1 + sim.choose(6)):
                if sim.chance(0.5):
                    cuts.add(1 + sim.choose(min(n_total - 1, 40)))
                else:
                    cuts.add(1 + sim.choose(n_total - 1))
            sim.count('net_fragmented_writes')
        prev = 0
        for c in sorted(cuts):
            self._q.append(data[prev:c])
            prev = c
        self._q.append(data[prev:])
        self._inflight += n_total
        if self._inflight > HI and not self._paused:
            self._paused = True
            sim.count('net_pause_writing')
            self._protocol.pause_writing()
        self._pump()

    def _pump(self):
        """Called on the sender side after data (or a close) was queued: make sure the receiver-side delivery chain runs."""
        if self._pumping or (not self._q and not (self._closing and not self._closed_sent)):
            return
        self._pumping = True
        try:
            self.peer._loop.call_soon_threadsafe(self._deliver_next)
        except RuntimeError:
            self._pumping = False  # receiver's loop is closed: nobody to deliver to

    def _deliver_next(self):
        # runs on the RECEIVER's loop; the chain keeps itself going there, so data written before the sender's
        # loop went away is still delivered (as the kernel would)
        sim = core._SIM
        delay = NetCfg.delays[sim.choose(len(NetCfg.delays))]
        if delay:
            self.peer._loop.call_later(delay, self._deliver)
        else:
            self.peer._loop.call_soon(self._deliver)

    def _deliver(self):
        peer = self.peer
        if self._q:
            c = self._q.pop(0)
            if not peer._closing:
                peer._protocol.data_received(c)
            try:
                self._loop.call_soon_threadsafe(self._acked, len(c))
            except RuntimeError:
                self._inflight -= len(c)  # sender's loop is closed
        elif self._closing and not self._closed_sent:
            self._closed_sent = True
            if not peer._closing:
                keep = peer._protocol.eof_received()
                if not keep:
                    peer.close()
        if self._q or (self._closing and not self._closed_sent):
            self._deliver_next()
        else:
            self._pumping = False

    def _acked(self, n):
        self._inflight -= n
        if self._paused and self._inflight <= LO:
            self._paused = False
            self._protocol.resume_writing()

    def close(self):
        if self._closing:
            return
        self._closing = True
        self._loop.call_soon(self._protocol.connection_lost, None)
        self._pump()

    abort = close

    def can_write_eof(self):
        return False

    def pause_reading(self):
        pass

    def resume_reading(self):
        pass


class SimServer:
    def __init__(self, loop, cb, path):
        self.loop = loop
        self.cb = cb
        self.path = path

        class S:
            def getsockname(s):
                return path

        self.sockets = [S()]
        self._fut = None

    async def __aenter__(self):
        return self

    async def __aexit__(self, *a):
        self.close()

    def close(self):
        LISTENERS.pop(self.path, None)

    def is_serving(self):
        return self.path in LISTENERS

    async def wait_closed(self):
        return None

    async def serve_forever(self):
        self._fut = self.loop.create_future()
        try:
            await self._fut
        finally:
            self.close()


async def start_unix_server(cb, path=None, **kw):
    loop = asyncio.get_running_loop()
    s = SimServer(loop, cb, path)
    LISTENERS[path] = s
    try:
        open(path, 'w').close()  # so that the library's os.unlink(path) at shutdown has something to remove
    except OSError:
        pass
    return s


async def open_unix_connection(path=None, **kw):
    s = LISTENERS.get(path)
    if s is None:
        raise FileNotFoundError(path)
    loop = asyncio.get_running_loop()
    limit = kw.get('limit', 2 ** 16)
    reader = streams.StreamReader(limit=limit, loop=loop)
    protocol = streams.StreamReaderProtocol(reader, loop=loop)
    ct = SimTransport(loop, protocol, 'c')
    ready = loop.create_future()

    def make_server_side():
        sreader = streams.StreamReader(limit=2 ** 16, loop=s.loop)
        sproto = streams.StreamReaderProtocol(sreader, s.cb, loop=s.loop)
        st = SimTransport(s.loop, sproto, 's')
        st.peer = ct
        ct.peer = st
        sproto.connection_made(st)
        loop.call_soon_threadsafe(ready.set_result, None)

    s.loop.call_soon_threadsafe(make_server_side)
    await ready
    protocol.connection_made(ct)
    writer = streams.StreamWriter(ct, protocol, reader, loop)
    return reader, writer


def install():
    asyncio.set_event_loop_policy(SimPolicy())
    # Pure-Python Future/Task with creation-counter hashes: sets of tasks (all_tasks, gather, wait) then iterate in a
    # deterministic order instead of address order (addresses depend on when finished OS threads release their stacks).
    import itertools
    import asyncio.futures as F
    import asyncio.tasks as T
    ctr = itertools.count(1)
    _finit = F._PyFuture.__init__

    def __init__(self, *a, **k):
        self._sim_hash = next(ctr)
        _finit(self, *a, **k)

    F._PyFuture.__init__ = __init__
    F._PyFuture.__hash__ = lambda self: getattr(self, '_sim_hash', 0)
    F._PyFuture.__eq__ = lambda self, other: self is other
    T._PyTask.__hash__ = F._PyFuture.__hash__
    F.Future = F._PyFuture
    T.Task = T._PyTask
    asyncio.Future = F._PyFuture
    asyncio.Task = T._PyTask


def install_net():
    asyncio.start_unix_server = start_unix_server
    asyncio.open_unix_connection = open_unix_connection
