#!/bin/bash
# usage: tools_mut.sh <PROP> <patchfile> [-R]   : apply patch to a scratch copy of /repo/src and run the quick check on it
set -e
PROP=$1; PATCH=$(readlink -f $2); REV=$3
T=$(mktemp -d /tmp/mutXXXX)
mkdir -p $T/repo && cp -r /repo/src $T/repo/src
(cd $T/repo && patch -p1 -s $( [ "$REV" = "-R" ] && echo -R ) < $PATCH)
cd /verif
VERIF_NO_EVIDENCE=1 VERIF_REPO_SRC=$T/repo/src timeout 600 ./check $PROP quick $( [ "$REV" = "-R" ] && echo ${@:4} || echo ${@:3} ) 2>&1 | grep -v "^WARN" | tail -6
rm -rf $T
