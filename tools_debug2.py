#!/venv/bin/python
"""ad-hoc: replay a file in-process; print log records, thread exceptions, pending asyncio tasks at the verdict"""
import sys, json, os, asyncio
sys.path.insert(0, '/verif')
from sim import runner, core
prop = sys.argv[1]
check = runner.load_check(prop)
runner.setup(check.NEEDS)
doc = json.load(open(sys.argv[2]))
case = {'property': prop, 'seed': doc['seed'], 'scenario': doc['scenario'], 'sim': doc['sim'], 'decisions': doc['decisions']}
orig_finish = core.Sim.finish
def finish(self, verdict):
    if self.verdict is None:
        import gc
        print('VERDICT', verdict[:2], 'vtime', self.now - self.t0, file=sys.stderr)
        for r in self.logrecords[-30:]: print('LOGREC', r, file=sys.stderr)
        for e in self.thread_excs: print('THREAD-EXC', e[:3], e[3][-1500:], file=sys.stderr)
        for o in gc.get_objects():
            try:
                if isinstance(o, asyncio.Task) and not o.done():
                    print('TASK', o.get_name(), file=sys.stderr); o.print_stack(file=sys.stderr)
            except Exception: pass
    return orig_finish(self, verdict)
core.Sim.finish = finish
res = runner.execute(check, case, trace='-t' in sys.argv)
if '-t' in sys.argv:
    for l in res['trace'][-int(os.environ.get('N', '100')):]: print(l)
print(res['cls'], res['verdict'], [v[0] for v in res['violations']])
for v in res['violations']: print(json.dumps(v[1])[:1500])
