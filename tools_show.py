#!/venv/bin/python
import json,sys,glob
for fn in sys.argv[1:]:
    d=json.load(open(fn))
    print(fn); print(' sc:',json.dumps(d['scenario'])); print(' sim:',d['sim'],'nz',d['nonzero_decisions'],'len',len(d['decisions'] or []))
    print(' sig:',d['violation']['signature'])
    det=d['violation']['detail'] or {}
    if isinstance(det,dict):
        for b in det.get('blocked',[]):
            print('   ',b[0],b[1],b[2],b[3],[ (f[0].split('/')[-1],f[1],f[2]) for f in b[4][:7]])
        for k,v in det.items():
            if k!='blocked': print('   ',k,':',str(v)[:1500])
    else: print('   ',str(det)[:1500])
