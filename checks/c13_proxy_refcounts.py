"""C13 - hosted objects live exactly as long as some proxy refers to them."""
import gc
import pickle
import threading
import time

from checks import managers
from checks.common import swarm

ID = 'C13'
LEVEL = 'exploration'
NEEDS = ('threads', 'proc')
QUICK = dict(runs=3500, wall=85)
THOROUGH = dict(runs=80000, wall=1800)
RULE = ('history machine over named handles: create(list|dict|Value|Namespace|Maker|MemoryBlock), copy via pickle, pickle only (in transit), '
        'unpickle later (once), send between the driver and 1-2 client processes over a connection, pass as Process argument to a '
        'short-lived child, store in / remove from a hosted list or dict, call a hosted method returning managed(...) values (flat and '
        'nested, incl. a shared-memory block), use from a second thread, delete handle, client process exits; histories of 3-14 ops; the '
        'real ServerProcess/Server/BaseProxy code runs in simulated processes; after every op: quiescence (all commands acknowledged, GC '
        'in every party, one no-op call per open connection, settle) then server debug_info refcounts == reference count model '
        '(live proxies + in-transit pickles + containing hosted containers), object gone iff count 0, shm block exists iff its block lives')
NONTRIVIAL_RULE = 'history has >=3 applicable ops and involves >=2 client processes or a nested/managed value'
REAL = ['mpservice.multiprocessing.server_process (ServerProcess, Server, BaseProxy, RebuildProxy, AutoProxy, managed*, MemoryBlock*)',
        'multiprocessing.managers.Server (serve_forever, accepter, handle_request, serve_client, decref), BaseManager.start/connect/shutdown, '
        'dispatch, Listener/Client auth handshake, util.Finalize']
STUB = ['process spawn/exit, unix sockets, pipes, semaphores, /dev/shm (sim/osproc.py)', 'thread scheduler', 'clock']
ASSUMPTIONS = ['a pickled proxy that is never unpickled is a leak by design and is not generated',
               'counts are judged only at quiescence, after one no-op call per open connection (the server handler thread keeps its last reply '
               'alive until the next request arrives: observed on the real system too)']
KINDS = ['list', 'list', 'dict', 'Value', 'Namespace', 'Maker', 'Maker', 'MemoryBlock']


def gen(rng, tier):
    nag = rng.choice([1, 1, 2])
    two = rng.random() < 0.2  # a second ServerProcess: proxies of objects hosted by one server end up inside containers hosted by the other
    ops = [['create', rng.choice(KINDS)], ['create', rng.choice(['list', 'dict', 'Maker'])]]
    if two:
        ops[1].append(1)
        ops.append(['create', rng.choice(['list', 'dict', 'Maker', 'Value']), 1])
    if rng.random() < 0.2:
        # "same server-side object handed out again": a Maker whose shared list is returned (managed) several times, to the same or to
        # different parties, while earlier proxies of it are alive; the random tail then drops / sends / stores them in some order
        ops[0] = ['create', 'Maker']
        for _ in range(rng.choice([2, 2, 3])):
            ops.append(['shared', rng.randrange(nag + 1), 0])
            if rng.random() < 0.4:
                ops.append([rng.choice(['drop', 'send', 'copy', 'thread_use']), rng.randrange(nag + 1), rng.randrange(8), rng.randrange(nag + 1)])
                if ops[-1][0] != 'send':
                    ops[-1].pop()
    for _ in range(rng.choice([2, 4, 6, 9, 12])):
        r = rng.random()
        p = rng.randrange(nag + 1)
        a, b, c = rng.randrange(8), rng.randrange(8), rng.randrange(8)
        if r < 0.08:
            ops.append(['create', rng.choice(KINDS)])
            if two and rng.random() < 0.6:
                ops[-1].append(1)  # hosted by the second manager
        elif r < 0.18:
            ops.append(['copy', p, a])
        elif r < 0.26:
            ops.append(['pickle', p, a])
        elif r < 0.34:
            ops.append(['unpickle', p, a])
        elif r < 0.50:
            ops.append(['send', p, a, rng.randrange(nag + 1)])
        elif r < 0.58:
            ops.append([rng.choice(['procarg', 'procarg', 'handoff']), a])
        elif r < 0.68:
            ops.append(['store', p, a, b])
        elif r < 0.74:
            ops.append(['unstore', p, a])
        elif r < 0.86:
            ops.append([rng.choice(['managed', 'nested', 'mem', 'shared', 'shared', 'shared']), p, a])
        elif r < 0.94:
            ops.append(['drop', p, a])
        elif r < 0.97:
            ops.append(['thread_use', p, a])
        else:
            ops.append(['agent_exit', 1 + rng.randrange(nag)])
    sc = {'nagents': nag, 'ops': ops, 'final_drop': rng.random() < 0.7, 'two_managers': two}
    cfg = swarm(rng, racy=0.0, line=0.05, strategies=('random', 'weighted', 'sticky', 'sticky'), max_time=2000.0, max_steps=3_000_000,
                pipe_cap=65536)
    return {'scenario': sc, 'sim': cfg}


def shrink(sc):
    ops = sc['ops']
    for i in range(len(ops) - 1, -1, -1):
        yield dict(sc, ops=ops[:i] + ops[i + 1:])
    if sc['nagents'] > 1:
        yield dict(sc, nagents=1)
    if sc.get('final_drop'):
        yield dict(sc, final_drop=False)
    if sc.get('two_managers'):
        yield dict(sc, two_managers=False, ops=[o[:2] if o[0] == 'create' else o for o in ops])


def tags(sim, sc, obs):
    t = ['agents:%d' % sc['nagents']]
    for o in obs.get('applied', []):
        t.append('op:' + o)
    return sorted(set(t))


def nontrivial(sim, sc, obs):
    ap = obs.get('applied', [])
    return len(ap) >= 3 and (sc['nagents'] >= 2 or any(o in ('managed', 'nested', 'mem', 'shared', 'store', 'send', 'procarg', 'handoff') for o in ap))


def child_use(p):
    """target of the short-lived child process that received a proxy as an argument"""
    managers._touch(p)
    return 'used'


class Model:
    def __init__(self):
        self.kind = {}      # oid -> kind
        self.ident = {}     # oid -> server ident
        self.handles = {}   # (party, name) -> oid
        self.blobs = {}     # (party, bname) -> oid
        self.slots = {}     # container oid -> list of (key, oid)
        self.n = 0

    def new(self, kind, ident):
        self.n += 1
        oid = self.n
        self.kind[oid] = kind
        self.ident[oid] = ident
        if kind in ('list', 'dict'):
            self.slots[oid] = []
        return oid

    def count(self, oid):
        c = sum(1 for v in self.handles.values() if v == oid) + sum(1 for v in self.blobs.values() if v == oid)
        for cid, sl in self.slots.items():
            if cid in self.kind:
                c += sum(1 for k, v in sl if v == oid)
        return c

    def collect(self):
        """destroy objects whose count dropped to 0 (cascading through containers)"""
        changed = True
        while changed:
            changed = False
            for oid in list(self.kind):
                if self.count(oid) == 0:
                    del self.kind[oid]
                    self.ident.pop(oid, None)
                    self.slots.pop(oid, None)
                    changed = True

    def expected(self):
        return {self.ident[oid]: self.count(oid) for oid in self.kind}


def run(sim, sc):
    from mpservice.multiprocessing import Process
    from mpservice.multiprocessing.server_process import ServerProcess
    from sim import osproc
    managers.register()
    K = osproc.kernel()
    model = Model()
    applied = []
    nag = sc['nagents']
    mine = {}    # main's handles: name -> proxy
    myblobs = {}
    ctr = [0]

    def fresh(prefix='h'):
        ctr[0] += 1
        return '%s%d' % (prefix, ctr[0])

    import contextlib
    with contextlib.ExitStack() as stack:
        m = stack.enter_context(ServerProcess())
        ms = [m]
        if sc.get('two_managers'):
            ms.append(stack.enter_context(ServerProcess()))
            sim.count('two_managers')
        agents = [None] + [managers.Agent(i + 1) for i in range(nag)]

        def party_handles(p):
            return sorted(n for (pp, n) in model.handles if pp == p)

        def party_blobs(p):
            return sorted(n for (pp, n) in model.blobs if pp == p)

        def pick(lst, i):
            return lst[i % len(lst)] if lst else None

        def alive(p):
            return p == 0 or (agents[p] is not None and agents[p].alive)

        def ident_of(p, name):
            if p == 0:
                return mine[name]._token.id
            r = agents[p].cmd('call', name, '__getattribute__', ('_token',))
            return r[1].id if r[0] == 'RET' else None

        def observe(label):
            for a in agents[1:]:
                if a is not None and a.alive:
                    a.cmd('gc')
            gc.collect()
            # one no-op call per open connection (flushes the reply kept by each server handler thread)
            for a in agents[1:]:
                if a is not None and a.alive:
                    a.cmd('touch')
            seen_addr = set()
            for pxy in list(mine.values()):
                if pxy._token.address not in seen_addr:
                    seen_addr.add(pxy._token.address)
                    managers._touch(pxy)
            pxy = None
            got, types = {}, {}
            for mm in ms:
                g, t = managers.refcounts(mm, settle=0.05)
                got.update(g)
                types.update(t)
            model.collect()
            want = model.expected()
            if got != want:
                extra = {k: v for k, v in got.items() if k not in want}
                missing = {k: v for k, v in want.items() if k not in got}
                diff = {k: (got[k], want[k]) for k in got if k in want and got[k] != want[k]}
                if missing:
                    sig = 'lifetime:object-destroyed-while-still-referenced'
                elif extra:
                    sig = 'lifetime:object-alive-after-last-reference-gone'
                else:
                    sig = 'refcount:%s-than-references' % ('higher' if all(g > w for g, w in diff.values()) else 'lower-or-mixed')
                sim.violation(sig + ':after-' + label, {'after_op': label, 'got': got, 'want': want, 'types': types, 'applied': applied})
                return False
            nblocks = sum(1 for oid, k in model.kind.items() if k == 'MemoryBlock')
            if len(K.shm) != nblocks:
                sim.violation('shm:%s' % ('block-not-released' if len(K.shm) > nblocks else 'block-released-too-early'),
                              {'shm': sorted(K.shm), 'blocks_alive_in_model': nblocks, 'after_op': label})
                return False
            return True

        ok = True
        for op in sc['ops']:
            kind = op[0]
            done = False
            if kind == 'create':
                name = fresh()
                k = op[1]
                mgr = ms[op[2] % len(ms)] if len(op) > 2 else m
                if k == 'MemoryBlock':
                    mine[name] = mgr.MemoryBlock(32)
                elif k == 'Value':
                    mine[name] = mgr.Value('i', 3)
                else:
                    mine[name] = getattr(mgr, k)()
                model.handles[(0, name)] = model.new(k, mine[name]._token.id)
                done = True
            elif kind in ('copy', 'pickle', 'drop', 'thread_use'):
                p = op[1] % (nag + 1)
                h = pick(party_handles(p), op[2])
                if alive(p) and h is not None:
                    oid = model.handles[(p, h)]
                    if kind == 'copy':
                        n2 = fresh()
                        if p == 0:
                            mine[n2] = pickle.loads(pickle.dumps(mine[h]))
                        else:
                            agents[p].cmd('copy', h, n2)
                        model.handles[(p, n2)] = oid
                    elif kind == 'pickle':
                        b = fresh('b')
                        if p == 0:
                            myblobs[b] = pickle.dumps(mine[h])
                        else:
                            agents[p].cmd('pickle', h, b)
                        model.blobs[(p, b)] = oid
                    elif kind == 'drop':
                        if p == 0:
                            del mine[h]
                        else:
                            agents[p].cmd('drop', h)
                        del model.handles[(p, h)]
                    else:
                        if p == 0:
                            box = []
                            th = threading.Thread(target=lambda: box.append(managers._touch(mine[h])), name='harness-main-thread')
                            th.start()
                            th.join()
                        else:
                            k = model.kind[oid]
                            meth = 'get' if k == 'Value' else ('noop' if k == 'Maker' else ('_name' if k == 'MemoryBlock' else '__len__'))
                            if k != 'Namespace':
                                agents[p].cmd('thread_call', h, meth if meth != '_name' else '_callmethod', () if meth != '_name' else ('_name',))
                    done = True
            elif kind == 'unpickle':
                p = op[1] % (nag + 1)
                b = pick(party_blobs(p), op[2])
                if alive(p) and b is not None:
                    n2 = fresh()
                    if p == 0:
                        mine[n2] = pickle.loads(myblobs.pop(b))
                    else:
                        agents[p].cmd('unpickle', b, n2)
                    model.handles[(p, n2)] = model.blobs.pop((p, b))
                    done = True
            elif kind == 'send':
                pf, pt = op[1] % (nag + 1), op[3] % (nag + 1)
                h = pick(party_handles(pf), op[2])
                if alive(pf) and alive(pt) and h is not None and pf != pt:
                    n2 = fresh()
                    oid = model.handles[(pf, h)]
                    if pf == 0:
                        agents[pt].cmd('hold', n2, mine[h])
                    elif pt == 0:
                        mine[n2] = agents[pf].cmd('give', h)[1]
                    else:
                        tmp = agents[pf].cmd('give', h)[1]
                        agents[pt].cmd('hold', n2, tmp)
                        del tmp
                    model.handles[(pt, n2)] = oid
                    done = True
            elif kind == 'procarg':
                h = pick(party_handles(0), op[1])
                if h is not None and model.kind[model.handles[(0, h)]] != 'Namespace':
                    ch = Process(target=child_use, args=(mine[h],), name='harness-short-child')
                    ch.start()
                    r = ch.result()
                    ch = None
                    done = True
            elif kind == 'handoff':
                # the proxy is handed to a child as a Process argument and the parent lets go of it at once: the pickled copy
                # in transit is the only reference until the child has rebuilt it
                h = pick(party_handles(0), op[1])
                if h is not None and model.kind[model.handles[(0, h)]] != 'Namespace':
                    ch = Process(target=child_use, args=(mine[h],), name='harness-handoff-child')
                    ch.start()
                    del mine[h]
                    del model.handles[(0, h)]
                    try:
                        r = ch.result()
                    except Exception as e:
                        sim.violation('lifetime:object-destroyed-while-its-only-reference-was-in-transit-to-a-child', {'exc': repr(e)[:300], 'applied': applied})
                        ok = False
                        break
                    ch = None
                    done = True
            elif kind == 'store':
                p = op[1] % (nag + 1)
                hs = party_handles(p)
                cs = [n for n in hs if model.kind[model.handles[(p, n)]] in ('list', 'dict')]
                c = pick(cs, op[2])
                h = pick(hs, op[3])
                if alive(p) and c is not None and h is not None:
                    cid, oid = model.handles[(p, c)], model.handles[(p, h)]
                    if cid != oid:  # no self-containment cycles (they leak by construction, as any refcount scheme)
                        key = None if model.kind[cid] == 'list' else fresh('k')
                        if not _reaches(model, oid, cid):
                            if p == 0:
                                if key is None:
                                    mine[c].append(mine[h])
                                else:
                                    mine[c][key] = mine[h]
                            else:
                                agents[p].cmd('store', c, h, key)
                            model.slots[cid].append((key, oid))
                            done = True
            elif kind == 'unstore':
                p = op[1] % (nag + 1)
                hs = party_handles(p)
                cs = [n for n in hs if model.kind[model.handles[(p, n)]] in ('list', 'dict') and model.slots[model.handles[(p, n)]]]
                c = pick(cs, op[2])
                if alive(p) and c is not None:
                    cid = model.handles[(p, c)]
                    key, oid = model.slots[cid].pop()
                    if p == 0:
                        if key is None:
                            mine[c].pop()
                        else:
                            mine[c].pop(key)
                    else:
                        agents[p].cmd('call', c, 'pop', () if key is None else (key,))
                    done = True
            elif kind == 'shared':
                p = op[1] % (nag + 1)
                hs = [n for n in party_handles(p) if model.kind[model.handles[(p, n)]] == 'Maker']
                h = pick(hs, op[2])
                if alive(p) and h is not None:
                    n2 = fresh()
                    if p == 0:
                        mine[n2] = mine[h].shared_list()
                    else:
                        agents[p].cmd('callhold', h, 'shared_list', (), n2)
                    ident = ident_of(p, n2)
                    existing = [oid for oid, idn in model.ident.items() if idn == ident and oid in model.kind]
                    model.handles[(p, n2)] = existing[0] if existing else model.new('sharedlist', ident)
                    done = True
            elif kind in ('managed', 'nested', 'mem'):
                p = op[1] % (nag + 1)
                hs = [n for n in party_handles(p) if model.kind[model.handles[(p, n)]] == 'Maker']
                h = pick(hs, op[2])
                if alive(p) and h is not None:
                    if kind == 'managed':
                        n2 = fresh()
                        if p == 0:
                            mine[n2] = mine[h].make_list([1, 2, 3])
                        else:
                            agents[p].cmd('callhold', h, 'make_list', ([1, 2, 3],), n2)
                        model.handles[(p, n2)] = model.new('list', ident_of(p, n2))
                    elif kind == 'mem':
                        n2 = fresh()
                        if p == 0:
                            mine[n2] = mine[h].make_mem(16)
                        else:
                            agents[p].cmd('callhold', h, 'make_mem', (16,), n2)
                        model.handles[(p, n2)] = model.new('MemoryBlock', ident_of(p, n2))
                    else:
                        n2, n3, tmp = fresh(), fresh(), fresh('t')
                        if p == 0:
                            d = mine[h].make_nested([7, 8])
                            mine[n2], mine[n3] = d['lst'], d['dct']
                            d = None
                        else:
                            agents[p].cmd('callhold', h, 'make_nested', ([7, 8],), tmp)
                            agents[p].cmd('item_hold', tmp, 'lst', n2)
                            agents[p].cmd('item_hold', tmp, 'dct', n3)
                            agents[p].cmd('drop', tmp)
                        model.handles[(p, n2)] = model.new('list', ident_of(p, n2))
                        model.handles[(p, n3)] = model.new('dict', ident_of(p, n3))
                    done = True
            elif kind == 'agent_exit':
                a = 1 + (op[1] - 1) % nag
                if agents[a] is not None and agents[a].alive and not party_blobs(a):
                    agents[a].quit()
                    for key in [k for k in model.handles if k[0] == a]:
                        del model.handles[key]
                    done = True
            if done:
                applied.append(kind)
                if not observe(kind):
                    ok = False
                    break
        if ok and sc.get('final_drop'):
            # drop everything: every hosted object must go away, every shm block must be released
            for a in range(1, nag + 1):
                if agents[a].alive:
                    for b in party_blobs(a):
                        n2 = fresh()
                        agents[a].cmd('unpickle', b, n2)
                        model.handles[(a, n2)] = model.blobs.pop((a, b))
                    agents[a].quit()
                    for key in [k for k in model.handles if k[0] == a]:
                        del model.handles[key]
            for b in list(myblobs):
                x = pickle.loads(myblobs.pop(b))
                del x
            model.blobs.clear()
            mine.clear()
            for key in list(model.handles):
                del model.handles[key]
            applied.append('final_drop')
            observe('final_drop')
        for a in agents[1:]:
            if a is not None:
                a.quit()
        mine.clear()
    return {'applied': applied}


def _reaches(model, a, b):
    """does container a (transitively) contain b?"""
    seen = set()
    stack = [a]
    while stack:
        x = stack.pop()
        if x == b:
            return True
        if x in seen:
            continue
        seen.add(x)
        for k, v in model.slots.get(x, []):
            stack.append(v)
    return False
