"""C03 - Stream pipelines equal their sequential meaning (reference interpreter of plain generators)."""
import itertools
import zlib
import random as _random
import time
from collections import deque

from checks.common import swarm

ID = 'C03'
LEVEL = 'exploration'
NEEDS = ('threads',)
QUICK = dict(runs=36000, wall=85)
THOROUGH = dict(runs=600000, wall=1200)
RULE = ('program = 1..6 operators drawn type-directed from {map, filter, filter_exceptions, peek, head, tail, batch, unbatch, groupby, '
        'accumulate, buffer, parmap, shuffle} with boundary parameters (1, len, len+1); input = 0..20 ints, optionally with exception '
        'objects as elements; consumed by iteration / collect / drain / take-k-then-close; compared with a reference interpreter made of '
        'plain sequential generators; >=70% of programs contain buffer or parmap (helper threads scheduled by the simulator), the rest '
        'are pure chains (counted separately under scenario_tags: no_scheduling_freedom)')
NONTRIVIAL_RULE = 'program contains buffer or parmap and >=2 threads were runnable at the same step'
REAL = ['mpservice.streamer.Stream and all its operator classes', 'SingleLane', 'ThreadPoolExecutor']
STUB = ['thread scheduler', 'clock']
ASSUMPTIONS = ['for pure chains (no buffer/parmap) the simulator degenerates to one thread: plain reference-model testing']


class E1(Exception):
    pass


class E2(ValueError):
    pass


class E3(KeyError):
    pass


ETYPES = {'E1': E1, 'E2': E2, 'E3': E3}


def isexc(x):
    return isinstance(x, BaseException)


# ---- element functions (by name, so that programs are JSON)
def f_inc(x):
    return x if isexc(x) else x + 1


def f_dbl(x):
    return x if isexc(x) else x * 2


def f_len(x):
    return len(x)


def f_sum(x):
    return sum(v for v in x if not isexc(v))


def f_rev(x):
    return list(x)[::-1]


def f_grouplist(kv):
    return list(kv[1])


def p_even(x):
    return isexc(x) or x % 2 == 0


def p_small(x):
    return isexc(x) or x < 50


def p_long(x):
    return len(x) > 1


def k_div3(x):
    return -1 if isexc(x) else x // 3


def k_parity(x):
    return -1 if isexc(x) else x % 2


def acc_add(a, b):
    return (0 if isexc(a) else a) + (0 if isexc(b) else b)


def acc_gap(a, b):
    """an accumulating function for which None is an ordinary state: it accepts None as the running value and returns None for some sums"""
    a = 0 if (a is None or isexc(a)) else a
    b = 0 if isexc(b) else b
    z = a + b
    return None if z % 3 == 2 else z


FN = {f.__name__: f for f in (f_inc, f_dbl, f_len, f_sum, f_rev, f_grouplist, p_even, p_small, p_long, k_div3, k_parity, acc_add, acc_gap)}


def slow(fn, delays):
    def g(x):
        if delays:
            d = delays[(zlib.crc32(repr(x).encode()) if not isinstance(x, int) else x) % len(delays)] if not isexc(x) else 0
            if d:
                time.sleep(d)
        return fn(x)
    return g


# ---- program generation (type-directed)
def gen(rng, tier):
    n = rng.choice([0, 1, 2, 3, 5, 8, 12, 20])
    with_exc = rng.random() < 0.35
    xs = []
    for i in range(n):
        if with_exc and rng.random() < 0.2:
            xs.append(['exc', rng.choice(['E1', 'E2', 'E3']), i])
        else:
            xs.append(rng.randrange(100))
    if rng.random() < 0.3:
        xs = sorted(xs, key=lambda v: v if isinstance(v, int) else v[2])
    want_threads = rng.random() < 0.75
    prog = []
    ty = 'int'
    shuffled = False
    nops = rng.choice([1, 2, 3, 4, 5, 6])
    sizes = [1, 2, 3, max(1, n), n + 1]
    for k in range(nops):
        if ty == 'int':
            ops = ['map', 'filter', 'peek', 'buffer', 'buffer', 'parmap', 'parmap']
            if not shuffled:
                ops += ['head', 'tail', 'batch', 'groupby', 'accumulate', 'shuffle']
            if with_exc and not shuffled:  # which exception is met first after a shuffle is order-dependent
                ops += ['filter_exceptions', 'filter_exceptions']
        else:
            ops = ['unbatch', 'unbatch', 'maplist', 'buffer', 'parmaplist', 'filterlist']
            if not shuffled:
                ops += ['head', 'tail']
        op = rng.choice(ops)
        if op == 'map':
            prog.append(['map', rng.choice(['f_inc', 'f_dbl'])])
        elif op == 'filter':
            prog.append(['filter', rng.choice(['p_even', 'p_small'])])
        elif op == 'filterlist':
            prog.append(['filter', 'p_long'])
        elif op == 'peek':
            prog.append(['peek', rng.choice([1, 2, 3])])
        elif op == 'buffer':
            prog.append(['buffer', rng.choice(sizes)])
        elif op == 'parmap':
            prog.append(['parmap', rng.choice(['f_inc', 'f_dbl']), rng.choice([1, 2, 3]), [rng.choice([0, 0, 0.001, 0.005]) for _ in range(3)]])
        elif op == 'parmaplist':
            fn = rng.choice(['f_len', 'f_sum', 'f_rev'])
            prog.append(['parmap', fn, rng.choice([1, 2, 3]), [rng.choice([0, 0, 0.001, 0.005]) for _ in range(3)]])
            if fn != 'f_rev':
                ty = 'int'
        elif op == 'maplist':
            fn = rng.choice(['f_len', 'f_sum', 'f_rev'])
            prog.append(['map', fn])
            if fn != 'f_rev':
                ty = 'int'
        elif op == 'head':
            prog.append(['head', rng.choice(sizes)])
        elif op == 'tail':
            prog.append(['tail', rng.choice(sizes)])
        elif op == 'batch':
            prog.append(['batch', rng.choice(sizes)])
            ty = 'list'
        elif op == 'unbatch':
            prog.append(['unbatch'])
            ty = 'int'
        elif op == 'groupby':
            prog.append(['groupby', rng.choice(['k_div3', 'k_parity'])])
            prog.append(['map', 'f_grouplist'])
            ty = 'list'
        elif op == 'accumulate':
            prog.append(['accumulate', 'acc_add', rng.choice([None, 0, 5])])
        elif op == 'shuffle':
            prog.append(['shuffle', rng.choice(sizes + [1000])])
            shuffled = True
        elif op == 'filter_exceptions':
            r = rng.random()
            drop = rng.choice([None, ['E1'], ['E1', 'E2'], ['Exception']])
            keep = rng.choice([None, None, ['E3'], ['E2'], ['Exception']])
            prog.append(['filter_exceptions', drop, keep])
    if want_threads and not any(p[0] in ('buffer', 'parmap') for p in prog):
        pos = rng.randrange(len(prog) + 1)
        # keep groupby + its list-mapper adjacent
        while pos > 0 and prog[pos - 1][0] == 'groupby':
            pos += 1
        prog.insert(pos, ['buffer', rng.choice(sizes)])
    mode = rng.choice(['iter', 'iter', 'collect', 'drain', 'take'])
    if rng.random() < 0.2 and n >= 3:
        # "incremental consumption" class: a short chain of one-to-one operators with at least one concurrent one, first k taken
        prog = []
        for _ in range(rng.choice([1, 2, 3])):
            op = rng.choice(['map', 'buffer', 'parmap', 'parmap', 'peek', 'accumulate'])
            if op == 'map':
                prog.append(['map', rng.choice(['f_inc', 'f_dbl'])])
            elif op == 'buffer':
                prog.append(['buffer', rng.choice([1, 2, 3])])
            elif op == 'parmap':
                prog.append(['parmap', rng.choice(['f_inc', 'f_dbl']), rng.choice([1, 1, 2, 3]), [rng.choice([0.001, 0.005, 0.02]) for _ in range(3)]])
            elif op == 'peek':
                prog.append(['peek', rng.choice([1, 2, 3])])
            else:
                prog.append(['accumulate', 'acc_add', rng.choice([None, 0, 5])])
        if not any(p[0] in ('buffer', 'parmap') for p in prog):
            prog.append(['parmap', 'f_inc', 1, [0.005, 0.001, 0.02]])
        xs = [rng.randrange(100) for _ in range(rng.choice([12, 20, 40]))]
        n = len(xs)
        mode = 'take'
    if prog and prog[-1][0] == 'accumulate' and rng.random() < 0.5:
        # None as an ordinary value of the accumulation: a function that returns None for some elements, and (documented: "any
        # user-provided value, including None") an explicitly given initializer None. Only as the last operator, so that no later
        # stage function has to cope with None elements.
        prog[-1] = ['accumulate', 'acc_gap', rng.choice([None, 0, 'explicit_none', 'explicit_none'])]
    sc = {'xs': xs, 'prog': prog, 'consume': mode, 'take': rng.randrange(0, min(n, 6) + 2) if mode == 'take' and n > 8 else rng.randrange(0, n + 2),
          'src_delay': rng.choice([0, 0, 0.001])}
    if n and rng.random() < 0.25:
        sc['stall'] = [rng.randrange(n + 1), rng.choice([0.1, 0.1, 0.1, 0.5, 1.0, 1.0, 2.0])]  # the source stalls once (virtual time)
    elif not sc['src_delay'] and rng.random() < 0.3:
        sc['src_kind'] = rng.choice(['list', 'tuple', 'gen'])  # a plain container / generator instead of the instrumented iterator
    return {'scenario': sc, 'sim': swarm(rng, racy=0.1, line=0.2, max_time=200.0)}


def shrink(sc):
    xs, prog = sc['xs'], sc['prog']
    for i in range(len(xs)):
        yield dict(sc, xs=xs[:i] + xs[i + 1:])
    for i in range(len(prog)):
        if len(prog) > 1 and prog[i][0] not in ('groupby',) and not (i > 0 and prog[i - 1][0] == 'groupby'):
            # only remove type-preserving operators
            if prog[i][0] in ('map', 'filter', 'peek', 'buffer', 'head', 'tail', 'accumulate', 'shuffle', 'filter_exceptions', 'parmap') \
                    and (prog[i][0] not in ('map', 'parmap') or prog[i][1] in ('f_inc', 'f_dbl', 'f_rev')):
                yield dict(sc, prog=prog[:i] + prog[i + 1:])
    if sc['src_delay']:
        yield dict(sc, src_delay=0)
    if sc.get('stall'):
        yield {k: v for k, v in sc.items() if k != 'stall'}
    if sc.get('src_kind'):
        yield {k: v for k, v in sc.items() if k != 'src_kind'}


def mk(v):
    if isinstance(v, list):
        return ETYPES[v[1]](v[2])
    return v


def etypes(names):
    if names is None:
        return None
    return tuple(Exception if n == 'Exception' else ETYPES[n] for n in names)


# ---- reference interpreter: plain sequential generators
def ref_pipeline(it, prog, peeked, eager_head=False):
    for p in prog:
        op = p[0]
        if op == 'map':
            it = map(FN[p[1]], it)
        elif op == 'parmap':
            it = map(FN[p[1]], it)
        elif op == 'filter':
            it = filter(FN[p[1]], it)
        elif op == 'peek':
            it = _ref_peek(it, p[1], peeked)
        elif op == 'buffer':
            pass
        elif op == 'head':
            it = _ref_head_eager(it, p[1]) if eager_head else itertools.islice(it, p[1])
        elif op == 'tail':
            it = _ref_tail(it, p[1])
        elif op == 'batch':
            it = _ref_batch(it, p[1])
        elif op == 'unbatch':
            it = itertools.chain.from_iterable(it)
        elif op == 'groupby':
            it = itertools.groupby(it, FN[p[1]])
        elif op == 'accumulate':
            it = _ref_acc(it, FN[p[1]], p[2])
        elif op == 'shuffle':
            pass  # permutation: compared as a multiset
        elif op == 'filter_exceptions':
            it = _ref_fexc(it, etypes(p[1]), etypes(p[2]))
    return it


def _ref_peek(it, interval, peeked):
    for i, x in enumerate(it, 1):
        if i % interval == 0 or isexc(x):
            peeked.append(i)
        yield x


def _ref_head_eager(it, n):
    # "apply the operator to the whole output of the previous one": upstream failures beyond the cut surface
    yield from list(it)[:n]


def _ref_tail(it, n):
    yield from deque(it, maxlen=n)


def _ref_batch(it, b):
    batch = []
    for x in it:
        batch.append(x)
        if len(batch) == b:
            yield batch
            batch = []
    if batch:
        yield batch


def _ref_acc(it, f, init):
    first = init is None  # scenario encoding: None = no initializer given; 'explicit_none' = initializer=None given
    z = None if init == 'explicit_none' else init
    for x in it:
        if first:
            z = x
            first = False
        else:
            z = f(z, x)
        yield z


def _ref_fexc(it, drop, keep):
    for x in it:
        if isexc(x):
            if keep is not None and isinstance(x, keep):
                yield x
            elif drop is not None and isinstance(x, drop):
                continue
            else:
                raise x
        else:
            yield x


def norm(v):
    if isexc(v):
        return ['exc', type(v).__name__, list(v.args)]
    if isinstance(v, (list, tuple)):
        return [norm(i) for i in v]
    return v


class Src:
    def __init__(self, xs, delay, stall=None):
        self.xs = xs
        self.delay = delay
        self.stall = stall
        self.i = 0
        self.entered = 0

    def __iter__(self):
        return self

    def __next__(self):
        self.entered += 1
        if self.delay:
            time.sleep(self.delay)
        if self.stall is not None and self.i == self.stall[0]:
            time.sleep(self.stall[1])
        if self.i >= len(self.xs):
            raise StopIteration
        self.i += 1
        return self.xs[self.i - 1]


def tags(sim, sc, obs):
    t = ['consume:' + sc['consume']]
    if not any(p[0] in ('buffer', 'parmap') for p in sc['prog']):
        t.append('no_scheduling_freedom')
    for p in sc['prog']:
        t.append('op:' + p[0])
    if obs.get('raised'):
        t.append('raised')
    return t


def nontrivial(sim, sc, obs):
    return any(p[0] in ('buffer', 'parmap') for p in sc['prog']) and sim.max_runnable >= 2


ONE_TO_ONE = {'map', 'peek', 'accumulate', 'buffer', 'parmap', 'head'}


def build_stream(sim, sc, xs, peeked):
    from mpservice.streamer import Stream
    prog = sc['prog']
    src = Src(xs, sc['src_delay'], sc.get('stall'))
    kind = sc.get('src_kind')
    if kind and not sc['src_delay'] and not sc.get('stall'):
        s = Stream({'list': list, 'tuple': tuple, 'gen': lambda v: (e for e in v)}[kind](xs))
        src = Src([], 0)  # pull counts are not observable for a plain container: stays at 0, the pull-count clauses pass trivially
    else:
        s = Stream(src)
    for p in prog:
        op = p[0]
        if op == 'map':
            s.map(FN[p[1]])
        elif op == 'parmap':
            s.parmap(slow(FN[p[1]], p[3]), executor='thread', concurrency=p[2])
        elif op == 'filter':
            s.filter(FN[p[1]])
        elif op == 'peek':
            s.peek(print_func=lambda msg, _p=peeked: _p.append(msg), interval=p[1])
        elif op == 'buffer':
            s.buffer(p[1])
        elif op == 'head':
            s.head(p[1])
        elif op == 'tail':
            s.tail(p[1])
        elif op == 'batch':
            s.batch(p[1])
        elif op == 'unbatch':
            s.unbatch()
        elif op == 'groupby':
            s.groupby(FN[p[1]])
        elif op == 'accumulate':
            if p[2] is None:
                s.accumulate(FN[p[1]])
            elif p[2] == 'explicit_none':
                s.accumulate(FN[p[1]], None)
            else:
                s.accumulate(FN[p[1]], p[2])
        elif op == 'shuffle':
            s.shuffle(p[1])
        elif op == 'filter_exceptions':
            s.filter_exceptions(etypes(p[1]), etypes(p[2]))
    return src, s


def run_ambiguous(sim, sc, xs, ref_a, ref_b):
    src, s = build_stream(sim, sc, xs, [])
    got, raised = [], None
    try:
        for y in s:
            got.append(norm(y))
    except Exception as e:
        raised = norm(e)
    ok = (got, raised) in (ref_a, ref_b) or (raised is not None and raised in (ref_a[1], ref_b[1]) and got == ref_a[0][:len(got)])
    if not ok and not any(p[0] == 'shuffle' for p in sc['prog']):
        sim.violation('semantics:output-differs', {'got': got, 'raised': raised, 'accepted': [ref_a, ref_b], 'prog': sc['prog']})
    return {'raised': raised is not None, 'n_out': len(got)}


def run(sim, sc):
    _random.seed(12345)
    xs = [mk(v) for v in sc['xs']]
    prog = sc['prog']
    # reference
    ref_peeked = []
    want = []
    want_exc = None
    try:
        for y in ref_pipeline(iter(list(xs)), prog, ref_peeked):
            want.append(norm(y))
    except Exception as e:
        want_exc = norm(e)
    if any(p[0] == 'head' for p in prog):
        # `head` may or may not look past its cut-off; whether an upstream failure *beyond* the cut-off surfaces is not
        # fixed by the documented meaning, so both the lazy and the operator-at-a-time reading are accepted.
        want2, want_exc2 = [], None
        try:
            for y in ref_pipeline(iter(list(xs)), prog, [], eager_head=True):
                want2.append(norm(y))
        except Exception as e:
            want_exc2 = norm(e)
        if (want2, want_exc2) != (want, want_exc):
            sim.count('head_ambiguous')
            return run_ambiguous(sim, sc, xs, (want, want_exc), (want2, want_exc2))
    # real
    peeked = []
    src, s = build_stream(sim, sc, xs, peeked)
    if src.entered:
        sim.violation('laziness:building-the-pipeline-pulled-from-the-source', {'entered': src.entered})
    got = []
    raised = None
    mode = sc['consume']
    count = None
    try:
        if mode == 'collect':
            got = [norm(y) for y in s.collect()]
        elif mode == 'drain':
            count = s.drain()
        elif mode == 'take':
            it = iter(s)
            k = sc['take']
            try:
                while len(got) < k:
                    got.append(norm(next(it)))
            except StopIteration:
                pass
            pulled_at_k = src.entered
            if hasattr(it, 'close'):
                it.close()
            it = None
        else:
            for y in s:
                got.append(norm(y))
    except Exception as e:
        raised = norm(e)
        e = None
    has_shuffle = any(p[0] == 'shuffle' for p in prog)

    def same(a, b):
        if has_shuffle:
            return sorted(map(repr, a)) == sorted(map(repr, b))
        return a == b

    if mode == 'take':
        k = sc['take']
        if raised is None:
            exp = want[:k]
            if has_shuffle:
                if len(got) != len(exp) or any(repr(g) not in set(map(repr, want)) for g in got):
                    sim.violation('semantics:take-k-output-differs', {'got': got, 'want_prefix': exp, 'prog': prog})
            elif got != exp and not (want_exc is not None and len(want) < k):
                sim.violation('semantics:take-k-output-differs', {'got': got, 'want_prefix': exp, 'prog': prog})
            if all(p[0] in ONE_TO_ONE for p in prog) and len(got) == k:
                slack = 1  # the reference pull discipline may look one element ahead to detect exhaustion
                for p in prog:
                    if p[0] == 'buffer':
                        slack += p[1] + 2
                    elif p[0] == 'parmap':
                        slack += 2 * p[2] + 3
                    elif p[0] == 'head':
                        slack += 1
                if pulled_at_k > k + slack:
                    sim.violation('incremental:first-k-outputs-pulled-too-many-source-elements',
                                  {'k': k, 'pulled': pulled_at_k, 'allowed': k + slack, 'prog': prog})
        else:
            if want_exc is None or raised != want_exc:
                sim.violation('semantics:unexpected-exception', {'raised': raised, 'want_exc': want_exc, 'prog': prog})
    elif mode == 'drain':
        if raised is None:
            if want_exc is not None:
                sim.violation('semantics:exception-not-raised', {'want_exc': want_exc, 'prog': prog})
            elif count != len(want):
                sim.violation('semantics:drain-count-differs', {'count': count, 'want': len(want), 'prog': prog})
        elif raised != want_exc:
            sim.violation('semantics:unexpected-exception', {'raised': raised, 'want_exc': want_exc, 'prog': prog})
    else:
        if raised is None and want_exc is not None:
            sim.violation('semantics:exception-not-raised', {'want_exc': want_exc, 'got': got, 'prog': prog})
        elif raised is not None and raised != want_exc:
            sim.violation('semantics:unexpected-exception', {'raised': raised, 'want_exc': want_exc, 'prog': prog})
        elif mode == 'iter' and raised is not None and not has_shuffle and got != want[:len(got)]:
            sim.violation('semantics:output-differs', {'got': got, 'want': want, 'prog': prog})
        elif raised is None and not same(got, want):
            sim.violation('semantics:output-differs' + (':not-a-permutation' if has_shuffle else ''), {'got': got, 'want': want, 'prog': prog})
    return {'raised': raised is not None, 'n_out': len(got)}
