"""C05 - streams end cleanly on early stop or failure: no hang, no leak."""
import time

from checks import streams
from checks.common import swarm, thread_label, exc_choice

ID = 'C05'
LEVEL = 'exploration'
NEEDS = ('threads', 'aio')
QUICK = dict(runs=32000, wall=85)
THOROUGH = dict(runs=800000, wall=1200)
RULE = ('scenario = pipeline source -> [map|filter]* -> (buffer(m) | parmap(c, thread) | fifo_stream(cap)) [-> second such stage], '
        'sync or async flavour, m/c/cap in {1,2,3,8}, n<=10 elements, virtual service times; fault = consumer stop (break / close() / '
        'drop+GC) after k outputs and/or a failure (Exception subclass, or StopRequested from a stoppable source) at a generated '
        'position in source / map fn / parmap fn / preprocessor; x seeded schedule of feeder, workers, consumer')
NONTRIVIAL_RULE = 'the run had >=2 runnable threads at some step and a stop or failure was actually injected'
REAL = ['mpservice.streamer (Stream, Buffer, Parmapper, fifo_stream, AsyncStream, AsyncBuffer, AsyncParmapper, SyncIter, AsyncIter)',
        'mpservice._queues.SingleLane', 'mpservice.threading.Thread', 'mpservice.concurrent.futures.ThreadPoolExecutor',
        'stdlib threading/queue/concurrent.futures/asyncio above the lock and selector primitives']
STUB = ['thread scheduler', 'clock', 'asyncio selector (virtual)']
ASSUMPTIONS = ['process executors are exercised by C01/C08 process runs, not here']
SIZES = [1, 1, 2, 2, 3, 8]


def _fail(rng, n):
    k = rng.choice([1, 1, 2, 3])  # several failing elements: the FIRST in stream order must reach the consumer, the others must not leak out
    return {'idx': sorted(set(rng.randrange(max(1, n)) for _ in range(k))), 'exc': exc_choice(rng, ['ExcA', 'ExcB', 'ExcC', 'KeyError'])}


def gen(rng, tier):
    n = rng.choice([0, 1, 2, 3, 4, 5, 6, 8, 10])
    stages = []
    if rng.random() < 0.3:
        stages.append({'op': 'map'})
    if rng.random() < 0.15:
        stages.append({'op': 'filter'})
    nconc = rng.choice([1, 1, 1, 2])
    for _ in range(nconc):
        kind = rng.choice(['buffer', 'buffer', 'parmap', 'parmap', 'fifo'])
        if kind == 'buffer':
            stages.append({'op': 'buffer', 'm': rng.choice(SIZES)})
        elif kind == 'parmap':
            stages.append({'op': 'parmap', 'c': rng.choice(SIZES[:5]), 'delays': [rng.choice([0, 0.001, 0.002, 0.005, 0.02]) for _ in range(4)],
                           'return_exceptions': rng.random() < 0.2, 'return_x': rng.random() < 0.2})
        else:
            stages.append({'op': 'fifo', 'cap': rng.choice(SIZES), 'c': rng.choice([1, 2, 3]),
                           'delays': [rng.choice([0, 0.001, 0.002, 0.005, 0.02]) for _ in range(4)],
                           'return_exceptions': rng.random() < 0.2, 'return_x': rng.random() < 0.2, 'pre': rng.random() < 0.3})
        if rng.random() < 0.2:
            stages.append({'op': 'map'})
    for st in stages[:-1]:
        st.pop('return_x', None)
        st.pop('return_exceptions', None)
    flavour = rng.choice(['sync', 'sync', 'sync', 'async', 'async', 'synciter', 'asynciter'])
    if flavour in ('async', 'synciter'):
        for st in stages:
            if st['op'] == 'fifo':
                st['op'] = 'parmap'
                st.pop('cap', None)
                st.pop('pre', None)
    for st in stages:
        if st['op'] in ('parmap', 'map') and rng.random() < (0.35 if st['op'] == 'parmap' else 0.2) and (st['op'] == 'parmap' or flavour in ('async', 'synciter')):
            st['afn'] = True
    sc = {'n': n, 'stages': stages, 'src_delays': [rng.choice([0, 0, 0.001, 0.003, 0.01]) for _ in range(3)],
          'consumer_delay': rng.choice([0, 0, 0.001, 0.01, 0.05]), 'flavour': flavour}
    # faults
    r = rng.random()
    if r < 0.45:
        sc['stop'] = {'mode': rng.choice(['break', 'break', 'close', 'gc']), 'after': rng.randrange(0, n + 2)}
    if rng.random() < 0.45 or 'stop' not in sc:
        site = rng.choice(['source', 'source', 'stage', 'stage', 'pre', 'stoprequested'])
        if site == 'source':
            sc['src_fail'] = {'pos': rng.randrange(0, n + 1), 'exc': exc_choice(rng, ['ExcA', 'ExcB', 'ExcC', 'KeyError'])}
        elif site == 'stoprequested':
            sc['src_fail'] = {'pos': rng.randrange(0, n + 1), 'exc': 'StopRequested'}
        elif site == 'stage':
            cands = [s for s in stages if s['op'] in ('map', 'parmap', 'fifo')]
            if cands:
                rng.choice(cands)['fail'] = _fail(rng, n)
        else:
            cands = [s for s in stages if s['op'] == 'fifo']
            if not cands:
                cands = [s for s in stages if s['op'] in ('map', 'parmap')]
                if cands:
                    rng.choice(cands)['fail'] = _fail(rng, n)
            else:
                st = rng.choice(cands)
                st['pre_fail'] = _fail(rng, n)
    return {'scenario': sc, 'sim': swarm(rng, racy=0.15, line=0.25, max_time=120.0)}


def shrink(sc):
    if sc['n'] > 0:
        yield dict(sc, n=sc['n'] - 1)
    for i in range(len(sc['stages'])):
        if len(sc['stages']) > 1:
            yield dict(sc, stages=sc['stages'][:i] + sc['stages'][i + 1:])
    if sc.get('consumer_delay'):
        yield dict(sc, consumer_delay=0)
    if any(sc['src_delays']):
        yield dict(sc, src_delays=[0])
    for i, st in enumerate(sc['stages']):
        if st.get('delays') and any(st['delays']):
            st2 = dict(st, delays=[0])
            yield dict(sc, stages=sc['stages'][:i] + [st2] + sc['stages'][i + 1:])
        for key in ('return_x', 'return_exceptions', 'pre'):
            if st.get(key):
                st2 = dict(st)
                st2[key] = False
                yield dict(sc, stages=sc['stages'][:i] + [st2] + sc['stages'][i + 1:])
    if sc.get('stop') and sc.get('src_fail'):
        yield {k: v for k, v in sc.items() if k != 'src_fail'}
    if sc.get('stop') and sc['stop']['after'] > 0:
        yield dict(sc, stop=dict(sc['stop'], after=sc['stop']['after'] - 1))
    if sc.get('stop') and sc['stop']['mode'] != 'break':
        yield dict(sc, stop=dict(sc['stop'], mode='break'))


def nontrivial(sim, sc, obs):
    return sim.max_runnable >= 2 and bool(obs and (obs.get('stopped') or obs.get('raised')))


def tags(sim, sc, obs):
    t = ['flavour:' + sc.get('flavour', 'sync')]
    for st in sc['stages']:
        if st['op'] in ('buffer', 'parmap', 'fifo'):
            t.append('stage:' + st['op'])
    if obs.get('stopped'):
        t.append('stop:' + sc['stop']['mode'])
    if obs.get('raised'):
        t.append('raised:' + str(obs['raised'][0]))
    return t


class Holder:
    pass


def _check(sim, sc, outs, raised, stopped):
    want_out, want_exc = streams.reference(sc)
    k = len(outs)
    if outs != want_out[:k]:
        sim.violation('stream:wrong-prefix', {'got': outs, 'want': want_out})
    if stopped:
        if raised is not None:
            sim.violation('stream:unexpected-exception', {'raised': raised})
    else:
        if raised is None:
            if want_exc is not None:
                sim.violation('stream:failure-not-delivered', {'want': want_exc, 'got_outputs': outs})
            elif k != len(want_out):
                sim.violation('stream:outputs-missing', {'got': outs, 'want': want_out})
        else:
            if want_exc is None:
                sim.violation('stream:unexpected-exception', {'raised': raised})
            else:
                if k != len(want_out):
                    sim.violation('stream:failure-delivered-before-earlier-outputs', {'got': outs, 'want': want_out, 'raised': raised})
                if raised[0] != want_exc[0] or (raised[1] is not None and raised[1] != want_exc[1]):
                    sim.violation('stream:wrong-exception', {'raised': raised, 'want': want_exc})


def consume_sync(sim, sc, pipeline):
    stop = sc.get('stop')
    cd = sc.get('consumer_delay')
    outs = []
    raised = None
    stopped = False
    it = iter(pipeline)
    try:
        if stop is not None and stop['after'] == 0:
            stopped = True
        else:
            while True:
                try:
                    y = next(it)
                except StopIteration:
                    break
                outs.append(streams.norm_out(y))
                if cd:
                    time.sleep(cd)
                if stop is not None and len(outs) >= stop['after']:
                    stopped = True
                    break
    except Exception as e:
        raised = streams.exc_obs(e)
        e = None
    except BaseException as e:
        if type(e).__name__ != 'StopRequested':
            raise
        raised = ['StopRequested', None]
        e = None
    if stopped:
        sim.count('stop_' + stop['mode'])
        if stop['mode'] == 'close':
            it.close()
        elif stop['mode'] == 'gc':
            h = Holder()
            h.it = it
            h.me = h
            del h
            it = None
            sim.force_gc()
        else:
            it = None  # what leaving a for-loop does: the last reference goes away
    else:
        # exhausted or raised: a second next() must not produce anything more
        try:
            y = next(it)
            sim.violation('stream:yields-after-end', {'extra': streams.norm_out(y)})
        except StopIteration:
            pass
        except BaseException as e:
            sim.violation('stream:raises-again-after-end', {'exc': type(e).__name__})
    it = None
    return outs, raised, stopped


async def consume_async(sim, sc, pipeline):
    import asyncio
    stop = sc.get('stop')
    cd = sc.get('consumer_delay')
    outs = []
    raised = None
    stopped = False
    it = pipeline.__aiter__()
    try:
        if stop is not None and stop['after'] == 0:
            stopped = True
        else:
            while True:
                try:
                    y = await it.__anext__()
                except StopAsyncIteration:
                    break
                outs.append(streams.norm_out(y))
                if cd:
                    await asyncio.sleep(cd)
                if stop is not None and len(outs) >= stop['after']:
                    stopped = True
                    break
    except Exception as e:
        raised = streams.exc_obs(e)
        e = None
    except BaseException as e:
        if type(e).__name__ != 'StopRequested':
            raise
        raised = ['StopRequested', None]
        e = None
    if stopped:
        sim.count('stop_' + stop['mode'])
        if stop['mode'] == 'close':
            await it.aclose()
        elif stop['mode'] == 'gc':
            h = Holder()
            h.it = it
            h.me = h
            del h
            it = None
            sim.force_gc()
            await asyncio.sleep(0.001)
        else:
            it = None
            await asyncio.sleep(0)
    else:
        try:
            y = await it.__anext__()
            sim.violation('stream:yields-after-end', {'extra': streams.norm_out(y)})
        except StopAsyncIteration:
            pass
        except BaseException as e:
            sim.violation('stream:raises-again-after-end', {'exc': type(e).__name__})
    it = None
    return outs, raised, stopped


def run(sim, sc):
    import asyncio
    harness_threads = {t.idx for t in sim.threads}
    flavour = sc.get('flavour', 'sync')
    cleanup = []
    if flavour in ('sync', 'asynciter'):
        source = streams.Source(sim, sc['n'], sc['src_delays'], sc.get('src_fail'))
        pipeline, fns, cleanup = streams.build(sim, sc, source)
    else:
        source = streams.AsyncSource(sim, sc['n'], sc['src_delays'], sc.get('src_fail'))
        pipeline, fns = streams.build_async(sim, sc, source)
    if source.pulled or source.entered:
        sim.violation('laziness:building-the-pipeline-pulled-from-the-source', {'entered': source.entered})
    if flavour == 'sync':
        outs, raised, stopped = consume_sync(sim, sc, pipeline)
    elif flavour == 'synciter':
        from mpservice.streamer._streamer_async import SyncIter
        outs, raised, stopped = consume_sync(sim, sc, SyncIter(pipeline))
    elif flavour == 'async':
        outs, raised, stopped = asyncio.run(consume_async(sim, sc, pipeline))
    elif flavour == 'asynciter':
        from mpservice.streamer._streamer_async import AsyncIter
        outs, raised, stopped = asyncio.run(consume_async(sim, sc, AsyncIter(pipeline)))
    else:
        raise ValueError(flavour)
    pipeline = None
    _check(sim, sc, outs, raised, stopped)
    # sync flavour, deterministic finalisation (exhausted / raised / close() / last reference dropped): everything the pipeline
    # started must have exited by the time the consuming statement returns - no grace period
    if flavour == 'sync' and not (stopped and sc['stop']['mode'] == 'gc'):
        alive0 = [t for t in sim.threads if t.idx not in harness_threads and t.state not in ('done', 'dead')
                  and not thread_label(t).startswith('harness-pool')]
        running = sum(f.running for f in fns.values() if not any(st['op'] == 'fifo' for st in sc['stages']))
        if alive0 or running:
            import re
            names = sorted(set(re.sub(r'[-_]?\d+', '', thread_label(t)) for t in alive0))
            sim.violation('leak:still-running-when-the-iterator-was-closed:' + ','.join(names) + (':calls-in-flight' if running else ''),
                          {'threads': [thread_label(t) for t in alive0], 'worker_function_invocations_in_flight': running})
    for p in cleanup:
        p.shutdown(wait=False, cancel_futures=True)
    # ---------------- leak oracle: everything the pipeline started must be gone after a grace period
    time.sleep(1.5)
    alive = [t for t in sim.threads if t.idx not in harness_threads and t.state not in ('done', 'dead')
             and not thread_label(t).startswith('harness-pool')]
    if alive:
        import re
        names = sorted(set(re.sub(r'[-_]?\d+', '', thread_label(t)) for t in alive))
        sim.violation('leak:threads-alive-after-close:' + ','.join(names), {'threads': [thread_label(t) for t in alive]})
    return {'stopped': stopped, 'raised': raised, 'outs': len(outs)}
