"""C11 - server starts all-or-nothing and stops completely."""
import re
import time

from checks import servers
from checks.common import swarm, thread_label

ID = 'C11'
LEVEL = 'exploration'
NEEDS = ('threads', 'aio', 'proc')
PROC_READY = True
QUICK = dict(runs=10000, wall=85)
THOROUGH = dict(runs=300000, wall=1500)
RULE = ('fault = which worker (leaf index, worker index) raises in __init__, drawn uniformly over all workers of the tree plus "none" '
        '(the site list is enumerated per tree; coverage reports sites hit); tree = up to 3 servlets x 3 workers (thread leaves; process '
        'leaves over the simulated process boundary), nested ensemble/sequential/switch; history before exit in {none, calls, failing '
        'calls, timed-out calls, abandoned stream of 50-300 inputs}; 1-3 enter/exit cycles on the same object; Server and AsyncServer; '
        'oracle: failed __enter__ raises the init error and leaves no live worker/helper thread or process after 1 virtual second; '
        '__exit__ returns, nothing the server started is alive afterwards, the next cycle serves reference results')
NONTRIVIAL_RULE = 'an init failure was injected or a non-empty workload preceded __exit__; distinct = distinct event-log digests'
REAL = ['mpservice.mpserver.Server/AsyncServer.__enter__/__exit__', 'all Servlet.start/stop', 'Worker.run/start init handshake and sentinel relay']
STUB = ['thread scheduler', 'clock', 'asyncio selector']


def hang_signature(kind, report, default, sc=None):
    """Names one specific family of exit hangs (see KNOWN_FINDINGS.jsonl, C11-exit-hang-pipe-full): the driver is inside
    Server.__exit__/__aexit__ (servlet.stop() -> join) while a worker or relay thread is blocked WRITING to a full pipe-backed
    queue whose reader has already stopped reading. Every other hang keeps its generic signature."""
    root_in_exit = False
    rebroadcast = False
    writers = set()
    for idx, name, state, why, stack in report:
        fns = [f[2] for f in stack]
        if idx == 0 and ('__exit__' in fns or '__aexit__' in fns) and ('stop' in fns or 'join' in fns):
            # inside servlet.stop() -> join of a worker, or joining the onboarding / gather thread afterwards
            root_in_exit = True
        if why in ('write', 'sem') and 'put' in fns:
            for fn, ln, fname in stack:
                if '/mpservice/mpserver/' in fn:
                    writers.add(fname)
                    import linecache
                    if 'q_in.put' in linecache.getline(fn, ln):
                        # a worker that has just read the end marker puts it back on its OWN input queue (for fellow workers) and
                        # blocks: abandoned inputs written after the marker fill the pipe, and nobody reads that queue any more
                        rebroadcast = True
                    break
    if root_in_exit and writers and any(why == 'write' for _i, _n, _s, why, _st in report):
        # The recorded finding needs one of: a reader that stops at the FIRST end marker while other writers are still busy
        # (a leaf with >=2 workers, an ensemble/switch relay), a batching worker (its collector emits the marker ahead of its own
        # pending results), the onboarding thread still holding abandoned inputs, or abandoned inputs queued BEHIND the end marker
        # (the reader stops at the marker and then blocks re-broadcasting it into the full queue). A plain chain of single, non-batching workers
        # whose onboarding thread is idle cannot hang this way on the recorded code, so such a hang gets a different signature.
        vulnerable = '_onboard_input' in writers or rebroadcast
        if sc is not None:
            for lf in servers.leaves(sc['tree']):
                if lf.get('n', 1) > 1 or (lf.get('b') or 0) > 1 or lf.get('stream_threads'):
                    vulnerable = True
            if _has_relay(sc['tree']):
                vulnerable = True
        cls = 'first-end-marker-stops-reader' if vulnerable else 'single-writer-chain'
        return 'exit-hang:pipe-full-nobody-reading:%s:%s' % (cls, '|'.join(sorted(writers)))
    return None


def _has_relay(node):
    if node['t'] in ('ens', 'switch'):
        return True
    return any(_has_relay(c) for c in node.get('ch', []))


def gen(rng, tier):
    if PROC_READY and rng.random() < 0.15:
        # plain chain of single-worker process stages: the shape on which shutdown order and sentinel relay matter most
        tree = {'t': 'seq', 'ch': [dict(servers.gen_leaf(rng, tg, proc_ok=False, batch_ok=False), t='process', n=1) for tg in 'AB'[:rng.choice([2, 2, 1])] ]}
        for lf in tree['ch']:
            lf.pop('stream_threads', None)
        if len(tree['ch']) == 1:
            tree = tree['ch'][0]
    else:
        tree = servers.gen_tree(rng, proc_ok=PROC_READY and rng.random() < 0.25)
    lvs = servers.leaves(tree)
    sites = [(li, wi) for li, lf in enumerate(lvs) for wi in range(lf.get('n', 1))]
    fail_site = rng.choice(sites) if rng.random() < 0.45 else None
    for lf in lvs:
        lf['init_delay'] = rng.choice([0, 0, 0.001, 0.01])
    nxt = iter(range(1, 100000))
    cycles = []
    for cy in range(rng.choice([1, 1, 2, 3])):
        hist = rng.choice(['none', 'calls', 'calls', 'failing', 'timeouts', 'abandon', 'abandon'])
        callers = []
        if hist in ('calls', 'failing', 'timeouts'):
            for ci in range(rng.choice([1, 2, 3])):
                ops = []
                for _ in range(rng.choice([1, 2, 4])):
                    op = {'op': 'call', 'x': next(nxt), 'timeout': 100.0, 'bp': False}
                    if hist == 'timeouts' and rng.random() < 0.6:
                        op['timeout'] = max(1e-4, servers.mean_service_time(tree) * rng.choice([0.3, 0.8, 1.0]))
                        if rng.random() < 0.5:
                            op['x'] = [op['x'], 'p' * rng.choice([1000, 6000])]  # a late result bigger than a small pipe
                    ops.append(op)
                callers.append({'ops': ops})
        elif hist == 'abandon':
            n = rng.choice([5, 20, 50, 120, 300])
            xs = [next(nxt) for _ in range(n)]
            pad = rng.choice([0, 0, 200, 1000])
            if pad:
                xs = [[x, 'p' * pad] for x in xs]  # bulky requests: the abandoned backlog can exceed the pipe capacity
            callers.append({'ops': [{'op': 'stream', 'xs': xs, 'timeout': 100.0, 'return_exceptions': True, 'src_delay': 0,
                                     'stop_after': rng.choice([1, 2, max(1, n // 2)])}]})
        cycles.append({'hist': hist, 'callers': callers})
    if any(c['hist'] == 'failing' for c in cycles):
        allx = [servers.root(op['x']) for c in cycles for cl in c['callers'] for op in cl['ops'] if op['op'] == 'call']
        if allx:
            rng.choice(lvs)['fail'] = {'xs': sorted(rng.sample(allx, min(len(allx), 2))), 'exc': 'ExcA'}
    sc = {'tree': tree, 'capacity': rng.choice([1, 4, 16, 64, 300]), 'async': rng.random() < 0.3, 'cycles': cycles,
          'fail_site': list(fail_site) if fail_site else None, 'fail_cycle': rng.randrange(len(cycles)) if fail_site else None,
          # all-or-nothing: a failed start leaves nothing behind, so the same object can simply be entered again
          'same_object_after_failed_enter': bool(fail_site) and rng.random() < 0.6,
          'post': [next(nxt)] if rng.random() < 0.5 else []}  # without a final blocking call, abandoned work is still in flight at __exit__
    cfg = swarm(rng, racy=0.15, line=0.2, max_time=600.0, max_steps=1_500_000, pipe_cap=rng.choice([512, 4096, 4096, 65536]))
    return {'scenario': sc, 'sim': cfg}


def shrink(sc):
    cs = sc['cycles']
    for i in range(len(cs)):
        if len(cs) > 1:
            sc2 = dict(sc, cycles=cs[:i] + cs[i + 1:])
            if sc2.get('fail_cycle') is not None:
                sc2['fail_cycle'] = min(sc2['fail_cycle'], len(sc2['cycles']) - 1)
            yield sc2
    for i, c in enumerate(cs):
        if c['callers']:
            yield dict(sc, cycles=cs[:i] + [dict(c, hist='none', callers=[])] + cs[i + 1:])
        for j, cl in enumerate(c['callers']):
            for k, op in enumerate(cl['ops']):
                if op['op'] == 'stream' and len(op['xs']) > 2:
                    op2 = dict(op, xs=op['xs'][:len(op['xs']) // 2])
                    op2['stop_after'] = min(op2['stop_after'], len(op2['xs']))
                    cl2 = {'ops': cl['ops'][:k] + [op2] + cl['ops'][k + 1:]}
                    yield dict(sc, cycles=cs[:i] + [dict(c, callers=c['callers'][:j] + [cl2] + c['callers'][j + 1:])] + cs[i + 1:])
    t = sc['tree']
    if t['t'] not in ('thread', 'process') and sc.get('fail_site') is None:
        for c in t['ch']:
            yield dict(sc, tree=c)


def tags(sim, sc, obs):
    t = ['server:' + ('async' if sc['async'] else 'sync'), 'tree:' + sc['tree']['t']]
    if sc.get('fail_site'):
        t.append('init-fail-site:leaf%d-worker%d' % tuple(sc['fail_site']))
    for c in sc['cycles']:
        t.append('history:' + c['hist'])
    return t


def nontrivial(sim, sc, obs):
    return sc.get('fail_site') is not None or any(c['hist'] != 'none' for c in sc['cycles'])


def _lib_alive(sim, before):
    out = []
    for t in sim.threads:
        if t.idx in before or t.state in ('done', 'dead'):
            continue
        lab = thread_label(t)
        if lab.startswith('harness-') or lab.startswith('asyncio_'):
            continue
        out.append(t)
    return out


def _names(ts):
    return sorted(set(re.sub(r'[-_]?\d+', '', thread_label(t)) for t in ts))


def _procs_alive(sim):
    k = getattr(sim, 'kernel', None)
    if k is None:
        return []
    return [p.name for p in k.procs.values() if p is not k.main and p.returncode is None]


def run(sim, sc):
    import asyncio
    import copy
    from mpservice.mpserver import Server, AsyncServer
    from checks.c02_server_results import check_outcomes
    del servers.LOG[:]
    is_async = sc['async']
    before = {t.idx for t in sim.threads}
    tree = copy.deepcopy(sc['tree'])
    lvs = servers.leaves(tree)
    obs = {'cycles': 0, 'init_failed': False}

    def one_cycle(ci, cyc, server, fail_now):
        """returns False if enter failed (as planned)"""
        sub = {'tree': sc['tree'], 'capacity': sc['capacity'], 'async': is_async, 'callers': cyc['callers'], 'post': sc['post'] if not fail_now else []}
        return sub

    # the servlet objects are built once and reused across cycles (the property: same server object can be entered again);
    # an init failure is planned through a mutable flag list shared with the workers via init kwargs
    def set_fail(active):
        for li, lf in enumerate(lvs):
            lf['init_fail'] = sc['fail_site'][1] if (active and sc['fail_site'] and li == sc['fail_site'][0]) else None

    def rebuild_kwargs(servlet, node):
        # push the current init_fail into the already constructed servlet objects
        if node['t'] in ('thread', 'process'):
            servlet._init_kwargs['init_fail'] = node.get('init_fail')
        else:
            for s, c in zip(servlet._servlets, node['ch']):
                rebuild_kwargs(s, c)

    set_fail(False)
    servlet = servers.build_servlet(tree)
    server = (AsyncServer if is_async else Server)(servlet, capacity=sc['capacity'])

    def check_clean(label):
        time.sleep(1.0)
        alive = _lib_alive(sim, before)
        procs = _procs_alive(sim)
        if alive or procs:
            sim.violation('leak:%s:%s' % (label, ','.join(_names(alive) + ['proc:' + re.sub(r'\d+', '', p) for p in procs])),
                          {'threads': [thread_label(t) for t in alive], 'processes': procs})
            return False
        return True

    for ci, cyc in enumerate(sc['cycles']):
        fail_now = sc['fail_site'] is not None and sc['fail_cycle'] == ci
        del servers.LOG[:]  # the call log (used for batch-mate attribution) is per cycle
        set_fail(fail_now)
        rebuild_kwargs(servlet, tree)
        sub = {'tree': sc['tree'], 'capacity': sc['capacity'], 'async': is_async, 'callers': cyc['callers'], 'post': [x + 1000 * ci for x in sc['post']]}
        out = servers.ServerRun()
        if not is_async:
            try:
                server.__enter__()
                entered = True
            except Exception as e:
                entered = False
                out.enter_exc = e
            if entered:
                _sync_body(sim, server, sub, out)
        else:
            asyncio.run(_async_body(sim, server, sub, out))
        if fail_now:
            obs['init_failed'] = True
            sim.count('init_failure_injected')
            if out.enter_exc is None:
                sim.violation('enter:did-not-raise-although-a-worker-failed-to-initialise', {'site': sc['fail_site']})
            elif type(out.enter_exc).__name__ != 'InitError':
                sim.violation('enter:raised-a-different-error', {'exc': repr(out.enter_exc)[:300]})
            if not check_clean('after-failed-enter'):
                return obs
            if not sc.get('same_object_after_failed_enter'):
                servlet = servers.build_servlet(tree)
                set_fail(False)
                rebuild_kwargs(servlet, tree)
                server = (AsyncServer if is_async else Server)(servlet, capacity=sc['capacity'])
            continue
        if out.enter_exc is not None:
            sim.violation('enter:failed-without-fault', {'exc': repr(out.enter_exc)[:300], 'cycle': ci})
            return obs
        obs['cycles'] += 1
        if getattr(out, 'backlog_on_entry', 0):
            # nothing has been submitted yet in this lifecycle, yet the server counts requests as "being processed": those slots are
            # lost to this lifecycle (backpressure rejects at capacity - stale; with stale == capacity every request is turned away)
            sim.violation('reuse:re-entered-server-starts-with-occupied-slots', {'cycle': ci, 'backlog_on_entry': out.backlog_on_entry, 'capacity': sc['capacity']})
            return obs
        check_outcomes(sim, sub, out)
        if not check_clean('after-exit'):
            return obs
    return obs


def _sync_body(sim, server, sub, out):
    import threading
    try:
        out.backlog_on_entry = server.backlog
        ths = [threading.Thread(target=servers.sync_caller, args=(sim, server, ci, c['ops'], out.recs), name=f'harness-caller-{ci}', daemon=True)
               for ci, c in enumerate(sub['callers'])]
        for th in ths:
            th.start()
        for th in ths:
            th.join()
        for x in sub['post']:
            r = servers.Rec(-1, x, 'post', 100.0, False)
            out.post.append(r)
            r.t0 = sim.now
            try:
                r.value = server.call(x, timeout=100.0, backpressure=False)
                r.kind = 'value'
            except Exception as e:
                servers._classify_exc(r, e)
            r.t1 = sim.now
    finally:
        server.__exit__(None, None, None)
        out.exit_ok = True


async def _async_body(sim, server, sub, out):
    import asyncio
    try:
        await server.__aenter__()
    except Exception as e:
        out.enter_exc = e
        return
    try:
        out.backlog_on_entry = server.backlog
        tasks = [asyncio.create_task(servers.async_caller(sim, server, ci, c['ops'], out.recs)) for ci, c in enumerate(sub['callers'])]
        await asyncio.gather(*tasks)
        for x in sub['post']:
            r = servers.Rec(-1, x, 'post', 100.0, False)
            out.post.append(r)
            r.t0 = sim.now
            try:
                r.value = await server.call(x, timeout=100.0, backpressure=False)
                r.kind = 'value'
            except Exception as e:
                servers._classify_exc(r, e)
            r.t1 = sim.now
    finally:
        await server.__aexit__(None, None, None)
        out.exit_ok = True
