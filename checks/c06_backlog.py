"""C06 - backlog never exceeds capacity; slots are always returned."""
from checks import servers
from checks.common import swarm

ID = 'C06'
LEVEL = 'exploration'
NEEDS = ('threads', 'aio')
QUICK = dict(runs=25000, wall=85)
THOROUGH = dict(runs=400000, wall=1500)
RULE = ('scenario = Server/AsyncServer with capacity 1..4 over a thread servlet (1-3 workers, optional batching, virtual service times), '
        '2-5 concurrent callers + streams; run class "clean" (no deadlines, no aborts) or "faulty" (failing inputs, deadlines around the '
        'service time, backpressure on/off, abandoned streams, caller-side cancellation for async); invariant backlog<=capacity '
        'evaluated at EVERY scheduler step; history oracle on ServerBacklogFull legitimacy/immediacy, wait<=timeout, idle => backlog 0')
NONTRIVIAL_RULE = '>=2 threads runnable at the same step and the backlog reached the capacity at some step (callers actually competed for slots)'
REAL = ['mpservice.mpserver.Server/AsyncServer (_enqueue, _gather_output, notifier, stream)', 'ThreadServlet/Worker', 'fifo_stream']
STUB = ['thread scheduler', 'clock', 'asyncio selector']
ASSUMPTIONS = ['timing clauses (rejected at once; waits no longer than its timeout) are evaluated only in exact-time runs']


def gen(rng, tier):
    clean = rng.random() < 0.4
    tree = servers.gen_leaf(rng, 'A', proc_ok=False)
    if rng.random() < 0.25:
        tree = {'t': 'seq', 'ch': [tree, servers.gen_leaf(rng, 'B')]}
    svc = servers.mean_service_time(tree)
    cap = rng.choice([1, 1, 2, 2, 3, 4])
    is_async = rng.random() < 0.4
    nxt = iter(range(1, 1000))
    callers = []
    allx = []
    for ci in range(rng.choice([2, 3, 3, 4, 5])):
        ops = []
        for _ in range(rng.choice([2, 3, 4, 6])):
            r = rng.random()
            if r < 0.7:
                x = next(nxt)
                allx.append(x)
                op = {'op': 'call', 'x': x, 'timeout': 100.0, 'bp': False}
                if not clean:
                    q = rng.random()
                    if q < 0.3:
                        op['bp'] = True
                    elif q < 0.6:
                        op['timeout'] = max(0.0005, svc * rng.choice([0.3, 0.9, 1.0, 1.1, 2.0, 5.0]))
                    elif q < 0.7 and is_async:
                        op['cancel_after'] = svc * rng.choice([0.2, 0.9, 1.0, 1.5])
                ops.append(op)
            elif r < 0.9:
                xs = [next(nxt) for _ in range(rng.choice([2, 4, 7]))]
                allx.extend(xs)
                op = {'op': 'stream', 'xs': xs, 'timeout': 100.0, 'return_exceptions': True, 'src_delay': rng.choice([0, 0, 0.001])}
                if not clean and rng.random() < 0.4:
                    op['stop_after'] = rng.randrange(1, len(xs) + 1)
                ops.append(op)
            else:
                ops.append({'op': 'sleep', 'd': rng.choice([0.001, 0.01])})
        callers.append({'ops': ops})
    if not clean and allx and rng.random() < 0.5:
        lf = servers.leaves(tree)[0]
        lf['fail'] = {'xs': sorted(rng.sample(allx, min(len(allx), 3))), 'exc': 'ExcA'}
    sc = {'tree': tree, 'capacity': cap, 'async': is_async, 'callers': callers, 'post': [next(nxt)], 'class': 'clean' if clean else 'faulty'}
    if not clean and rng.random() < 0.3:
        # leave the context at once, with abandoned / timed-out work still in flight; then the stopped server is idle by definition
        sc['exit_busy'] = True
    cfg = swarm(rng, racy=0.0 if clean else 0.35, line=0.3, max_time=400.0, max_steps=600_000)
    return {'scenario': sc, 'sim': cfg}


def shrink(sc):
    from checks.c02_server_results import shrink as s2
    yield from s2(sc)
    if sc.get('exit_busy'):
        yield {k: v for k, v in sc.items() if k != 'exit_busy'}
    if sc['capacity'] > 1:
        yield dict(sc, capacity=sc['capacity'] - 1)


def tags(sim, sc, obs):
    t = ['class:' + sc['class'], 'server:' + ('async' if sc['async'] else 'sync'), 'capacity:%d' % sc['capacity']]
    for k in (obs.get('kinds') or {}):
        t.append('outcome:' + k)
    return t


def nontrivial(sim, sc, obs):
    return sim.max_runnable >= 2 and obs.get('peak', 0) >= sc['capacity']


def run(sim, sc):
    cap = sc['capacity']
    state = {'peak': 0, 'last_full': -10}

    sim.last_full_step = -10

    def on_entered(server):
        def inv():
            b = server.backlog
            if b > state['peak']:
                state['peak'] = b
            if b >= cap:
                sim.last_full_step = sim.steps
            if b > cap:
                return ('backlog:exceeds-capacity', {'backlog': b, 'capacity': cap})
            return None
        sim.invariants.append(inv)

    out = servers.run_scenario(sim, sc, on_entered=on_entered)
    if out.enter_exc is not None:
        sim.violation('server:enter-failed', {'exc': repr(out.enter_exc)})
        return {}
    exact = sim.time_mode == 'exact'
    eps = 1e-9
    processed = set()
    for tag, wi, payload, t in servers.LOG:
        if isinstance(payload, list) and not (payload and isinstance(payload[0], str)):
            processed.update(servers.root(v) for v in payload)
        else:
            processed.add(servers.root(payload))
    kinds = {}
    for r in out.recs + out.post:
        kinds[r.kind] = kinds.get(r.kind, 0) + 1
        if r.kind == 'full':
            if r.x in processed:
                sim.violation('backpressure:rejected-request-reached-a-worker', {'request': r.brief()})
            if r.bp:
                # legitimate iff the server was full at some scheduler step since the call was made (the count carried by the
                # exception may already be stale: the gather thread frees slots without the lock)
                if r.step0 is not None and r.full_seen is False:
                    sim.violation('backpressure:rejected-although-not-full', {'request': r.brief(), 'reported': r.backlog_at_reject, 'capacity': cap})
                if exact and r.t1 - r.t0 > eps:
                    sim.violation('backpressure:rejection-not-immediate', {'request': r.brief()})
                sim.count('rejected_backpressure')
            else:
                # giving up after waiting is legitimate by itself (a wake-up can be lost to a waiter that is cancelled at the same
                # moment - CPython 3.12.1 asyncio.Condition); whether slots really come back is judged by 'idle => backlog 0' and
                # by the post-phase request below
                if r.via == 'post':
                    sim.violation('backlog:idle-server-turned-a-request-away', {'request': r.brief()})
                elif r.timeout is not None and r.timeout >= 50 and not any(
                        q is not r and (q.kind == 'cancelled' or (q.kind == 'full' and not q.bp)) and q.t1 is not None and r.t0 <= q.t1 < r.t1 - 1e-6 for q in out.recs):
                    sim.violation('backlog:waiter-never-woken-although-slots-were-returned', {'request': r.brief()})
                elif exact and r.timeout is not None and r.t1 - r.t0 < 0.99 * r.timeout - eps:
                    sim.violation('backpressure:gave-up-waiting-before-timeout', {'request': r.brief()})
                sim.count('rejected_after_wait')
        if r.kind in ('value', 'error', 'timeout', 'full') and not r.bp and r.via == 'call' and r.timeout is not None and exact \
                and not sim.line_p and r.t1 - r.t0 > r.timeout + 1e-6:
            sim.violation('timeout:request-waited-longer-than-its-timeout', {'request': r.brief()})
        if r.kind == 'timeout' and (r.timeout is None or r.timeout >= 50):
            sim.violation('backlog:request-never-answered', {'request': r.brief()})
        if r.kind in ('value', 'error'):
            why = servers.match_outcome(servers.ref(servers.effective_tree(sc['tree']), r.x), r.kind, r.value)
            if why:
                sim.violation('outcome:differs-from-reference', {'request': r.brief(), 'why': why})
    if out.backlog_end:
        sim.violation('backlog:not-zero-when-idle', {'backlog': out.backlog_end})
    elif out.backlog_after_exit:
        # every accepted request's result emerged from the workers before they exited, or the request was accepted after they had
        # stopped: either way a slot was not given back
        sim.violation('backlog:not-zero-after-exit:' + ('first-end-marker-stops-reader' if servers.multi_writer(sc['tree']) else 'single-writer-chain'),
                      {'backlog': out.backlog_after_exit, 'exit_busy': bool(sc.get('exit_busy'))})
    if state['peak'] >= cap:
        sim.count('backlog_reached_capacity')
    return {'kinds': kinds, 'peak': state['peak']}
