"""C14 - proxy calls behave like direct calls on the hosted object."""
import copy
import threading
import time

from checks import managers
from checks.common import swarm

ID = 'C14'
LEVEL = 'exploration'
NEEDS = ('threads', 'proc')
QUICK = dict(runs=4000, wall=85)
THOROUGH = dict(runs=80000, wall=1800)
RULE = ('op sequences (4-25 ops) on list / dict / Namespace / Value / custom-class proxies, each op issued by a generated party: the driver '
        'process, a client process, or a second thread inside the client process (own connection), all holding proxies of the same hosted '
        'objects (the client process may drop all of them and be handed them again); generated picklable arguments; ops that raise (pop from empty, KeyError, ValueError, TypeError in a custom method, a '
        'custom exception class with its own __init__); the same list calls made by a hosted method that was handed the proxy (in-server '
        'call path); augmented assignments (*=, +=); methods returning managed() values (flat and nested); op-by-op comparison with a '
        'local reference object; a concurrent phase of commuting ops (appends of unique values / disjoint keys from two processes at '
        'once) compared as a multiset')
NONTRIVIAL_RULE = '>=4 ops, of which at least one issued by the client process or its second thread'
REAL = ['mpservice.multiprocessing.server_process (Server._callmethod/serve_client, BaseProxy._callmethod, generated proxy methods, managed*)',
        'mpservice.multiprocessing.remote_exception', 'multiprocessing.managers.Server / dispatch / convert_to_error, Connection framing']
STUB = ['process spawn/exit, unix sockets, pipes (sim/osproc.py)', 'thread scheduler', 'clock']
VALS = [0, 1, 2, 3, 5, 'a', 'bb', (1, 2), None, 2.5]


def gen(rng, tier):
    ops = []
    for _ in range(rng.choice([4, 8, 12, 18, 25])):
        target = rng.choice(['list', 'list', 'dict', 'dict', 'ns', 'value', 'maker', 'managed'])
        party = rng.choice(['main', 'main', 'agent', 'agent', 'agent_thread'])
        if rng.random() < 0.08:
            # the client process lets go of every proxy it holds and is handed them again: the objects are the same, the connections are not
            ops.append(['agent', 'ctl', 'reacquire', 0, 0, 0])
            continue
        v, v2 = rng.choice(VALS), rng.choice(VALS)
        i = rng.choice([0, 1, 2, -1, 5])
        if target == 'list':
            m = rng.choice(['append', 'append', 'extend', 'pop', 'pop_i', 'insert', 'getitem', 'setitem', 'len', 'count', 'index', 'remove',
                            'reverse', 'contains', 'delitem', 'sort', 'imul', 'iadd'])
            ops.append([party, 'list', m, v, v2, i])
            if m not in ('sort', 'imul', 'iadd') and rng.random() < 0.15:
                ops[-1].append('via_hosted_method')  # the same call, made by a hosted method that was handed the proxy
        elif target == 'dict':
            m = rng.choice(['setitem', 'setitem', 'getitem', 'get', 'pop', 'setdefault', 'update', 'len', 'contains', 'popitem', 'clear', 'copy', 'delitem'])
            ops.append([party, 'dict', m, rng.choice(['k1', 'k2', 'k3', 7]), v, i])
        elif target == 'ns':
            ops.append([party, 'ns', rng.choice(['set', 'set', 'get', 'del']), rng.choice(['x', 'y', 'zz']), v, i])
        elif target == 'value':
            ops.append([party, 'value', rng.choice(['set', 'get', 'prop_set', 'prop_get']), rng.choice([0, 1, 7, -3]), v, i])
        elif target == 'maker':
            ops.append([party, 'maker', rng.choice(['bump', 'bump', 'boom', 'type_error', 'noop', 'raise_lib', 'unserializable']), rng.choice([1, 2, 3, 5]), v, i])
        else:
            ops.append([party, 'managed', rng.choice(['make_use', 'nested_use', 'shared_use']), rng.choice([1, 2, 3]), v, i])
    sc = {'ops': ops, 'concurrent': rng.choice([0, 0, 4, 8])}
    cfg = swarm(rng, racy=0.0, line=0.05, strategies=('random', 'weighted', 'sticky'), max_time=2000.0, max_steps=3_000_000)
    return {'scenario': sc, 'sim': cfg}


def shrink(sc):
    ops = sc['ops']
    for i in range(len(ops) - 1, -1, -1):
        if len(ops) > 1:
            yield dict(sc, ops=ops[:i] + ops[i + 1:])
    if sc.get('concurrent'):
        yield dict(sc, concurrent=0)
    for i, op in enumerate(ops):
        if op[0] != 'main':
            yield dict(sc, ops=ops[:i] + [['main'] + op[1:]] + ops[i + 1:])
        if len(op) > 6:
            yield dict(sc, ops=ops[:i] + [op[:6]] + ops[i + 1:])


def tags(sim, sc, obs):
    t = set()
    for op in sc['ops']:
        t.add('party:' + op[0])
        t.add('op:%s.%s' % (op[1], op[2]))
    if obs.get('raised'):
        t.add('ops-that-raised:%d' % min(obs['raised'], 5))
    return sorted(t)


def nontrivial(sim, sc, obs):
    return len(sc['ops']) >= 4 and any(op[0] != 'main' for op in sc['ops'])


class NS:
    pass


def apply_local(ref, kind, m, a, v, i):
    """the same operation on the local reference object; returns ('RET', value) or raises"""
    if kind == 'list':
        L = ref['list']
        if m == 'append':
            return L.append(v)
        if m == 'extend':
            return L.extend([v, a])
        if m == 'pop':
            return L.pop()
        if m == 'pop_i':
            return L.pop(i)
        if m == 'insert':
            return L.insert(i, v)
        if m == 'getitem':
            return L[i]
        if m == 'setitem':
            L[i] = v
            return None
        if m == 'len':
            return len(L)
        if m == 'count':
            return L.count(v)
        if m == 'index':
            return L.index(v)
        if m == 'remove':
            return L.remove(v)
        if m == 'reverse':
            return L.reverse()
        if m == 'contains':
            return v in L
        if m == 'delitem':
            del L[i]
            return None
        if m == 'sort':
            return L.sort(key=repr)
    if kind == 'dict':
        D = ref['dict']
        if m == 'setitem':
            D[a] = v
            return None
        if m == 'getitem':
            return D[a]
        if m == 'get':
            return D.get(a, 'dflt')
        if m == 'pop':
            return D.pop(a)
        if m == 'setdefault':
            return D.setdefault(a, v)
        if m == 'update':
            return D.update({a: v, 'u': 1})
        if m == 'len':
            return len(D)
        if m == 'contains':
            return a in D
        if m == 'popitem':
            return D.popitem()
        if m == 'clear':
            return D.clear()
        if m == 'copy':
            return D.copy()
        if m == 'delitem':
            del D[a]
            return None
    if kind == 'ns':
        N = ref['ns']
        if m == 'set':
            setattr(N, a, v)
            return None
        if m == 'get':
            return getattr(N, a)
        if m == 'del':
            delattr(N, a)
            return None
    if kind == 'value':
        if m in ('set', 'prop_set'):
            ref['value'] = a
            return None
        return ref['value']
    if kind == 'maker':
        M = ref['maker']
        if m == 'bump':
            return M.bump(a)
        if m == 'boom':
            return M.boom(a)
        if m == 'raise_lib':
            return M.raise_lib(a)
        if m == 'type_error':
            return M.type_error(a)
        return M.noop()
    raise ValueError((kind, m))


def proxy_call_spec(kind, m, a, v, i):
    """(method name on the proxy, args) for ops that are a single proxy method call; None for composite ops"""
    if kind == 'list':
        return {'append': ('append', (v,)), 'extend': ('extend', ([v, a],)), 'pop': ('pop', ()), 'pop_i': ('pop', (i,)), 'insert': ('insert', (i, v)),
                'getitem': ('__getitem__', (i,)), 'setitem': ('__setitem__', (i, v)), 'len': ('__len__', ()), 'count': ('count', (v,)),
                'index': ('index', (v,)), 'remove': ('remove', (v,)), 'reverse': ('reverse', ()), 'contains': ('__contains__', (v,)),
                'delitem': ('__delitem__', (i,)), 'sort': None}[m]
    if kind == 'dict':
        return {'setitem': ('__setitem__', (a, v)), 'getitem': ('__getitem__', (a,)), 'get': ('get', (a, 'dflt')), 'pop': ('pop', (a,)),
                'setdefault': ('setdefault', (a, v)), 'update': ('update', ({a: v, 'u': 1},)), 'len': ('__len__', ()), 'contains': ('__contains__', (a,)),
                'popitem': ('popitem', ()), 'clear': ('clear', ()), 'copy': ('copy', ()), 'delitem': ('__delitem__', (a,))}[m]
    if kind == 'ns':
        return {'set': ('__setattr__', (a, v)), 'get': ('__getattr__', (a,)), 'del': ('__delattr__', (a,))}[m]
    if kind == 'value':
        return {'set': ('set', (a,)), 'get': ('get', ()), 'prop_set': ('set', (a,)), 'prop_get': ('get', ())}[m]
    if kind == 'maker':
        return {'bump': ('bump', (a,)), 'boom': ('boom', (a,)), 'type_error': ('type_error', (a,)), 'noop': ('noop', ()), 'raise_lib': ('raise_lib', (a,))}[m]
    return None


def run(sim, sc):
    from mpservice.multiprocessing.server_process import ServerProcess
    managers.register()
    nraised = 0
    with ServerProcess() as m:
        ag = managers.Agent(1)
        px = {'list': m.list(), 'dict': m.dict(), 'ns': m.Namespace(), 'value': m.Value('i', 0), 'maker': m.Maker()}
        for k, p in px.items():
            r = ag.cmd('hold', k, p)
            if r != 'ok':
                sim.violation('setup:agent-could-not-receive-proxy', {'kind': k, 'r': repr(r)})
                return {}
        from multiprocessing.managers import Namespace
        ref = {'list': [], 'dict': {}, 'ns': Namespace(), 'value': 0, 'maker': managers.Maker()}
        for n, op in enumerate(sc['ops']):
            party, kind, meth, a, v, i = op[:6]
            via_hosted = len(op) > 6
            if kind == 'list' and meth == 'sort':
                continue  # key functions do not pickle by value; covered by reverse
            if kind == 'list' and meth in ('imul', 'iadd'):
                # augmented assignment, exactly as the statement `p *= k` / `p += [..]` executes it: the name is rebound to what the
                # in-place method returns - for a list that is the list itself, so for a proxy it must be a proxy of the same object
                import operator
                arg = (abs(i) % 3) if meth == 'imul' else [v, a]
                opf = operator.imul if meth == 'imul' else operator.iadd
                ref['list'] = opf(ref['list'], arg)
                if party == 'main':
                    try:
                        q = opf(px['list'], arg)
                        tname = type(q).__name__
                        px['list'] = q
                    except Exception as e:
                        tname = 'raised ' + repr(e)[:200]
                else:
                    r = ag.cmd('inplace', 'list', meth, arg)
                    tname = r[1] if isinstance(r, tuple) and r[0] == 'RET' else 'raised ' + repr(r)[:200]
                if tname != 'ListProxy':
                    sim.violation('inplace:augmented-assignment-rebinds-the-name-to-%s' % ('a-copy' if tname == 'list' else 'something-else'),
                                  {'n': n, 'op': op, 'got_type': tname})
                    break
                continue
            if kind == 'maker' and meth == 'unserializable':
                # the reply cannot be sent: the caller must be told so (an exception, whichever), and the connection must stay usable -
                # the following operations of this run, issued over the same connection, are judged as usual
                if party == 'main':
                    try:
                        px['maker'].unserializable(a)
                        got = ('RET', None)
                    except Exception as e:
                        got = ('EXC', type(e).__name__)
                else:
                    got = ag.cmd('thread_call' if party == 'agent_thread' else 'call', 'maker', 'unserializable', (a,))
                if got[0] != 'EXC':
                    sim.violation('unserializable:reply-that-cannot-be-pickled-did-not-raise-in-the-caller', {'n': n, 'op': op, 'got': repr(got)[:200]})
                    break
                # same connection, next request
                if party == 'main':
                    try:
                        ok = px['maker'].noop() is None
                    except Exception as e:
                        ok = repr(e)[:200]
                else:
                    r2 = ag.cmd('call', 'maker', 'noop', ())
                    ok = True if r2 == ('RET', None) else repr(r2)[:200]
                if ok is not True:
                    sim.violation('unserializable:connection-unusable-after-a-reply-that-could-not-be-pickled', {'n': n, 'op': op, 'next_call': ok})
                    break
                sim.count('unserializable_reply')
                continue
            if kind == 'ctl':
                for k in px:
                    ag.cmd('drop', k)
                ag.cmd('gc')
                bad = [k for k, p in px.items() if ag.cmd('hold', k, p) != 'ok']
                if bad:
                    sim.violation('setup:agent-could-not-receive-proxy', {'kind': bad, 'after': 'reacquire'})
                    break
                sim.count('agent_reacquired_proxies')
                continue
            # ---- expected (local reference object)
            if kind == 'managed':
                got = _managed_use(sim, party, meth, a, px, ag)
                if got is not None:
                    sim.violation('managed:' + got[0], {'op': op, 'detail': got[1]})
                    break
                continue
            try:
                want = ('RET', apply_local(ref, kind, meth, a, v, i))
            except Exception as e:
                want = ('EXC', type(e).__name__, e.args)
            spec = proxy_call_spec(kind, meth, a, v, i)
            name, args = spec
            if via_hosted and party == 'agent_thread':
                party = 'agent'
            if party == 'main':
                try:
                    p = px[kind]
                    if via_hosted:
                        r = px['maker'].use_proxy(p, name, args)
                    elif kind == 'ns':
                        if meth == 'set':
                            setattr(p, a, v)
                            r = None
                        elif meth == 'get':
                            r = getattr(p, a)
                        else:
                            delattr(p, a)
                            r = None
                    elif kind == 'value' and meth.startswith('prop'):
                        if meth == 'prop_set':
                            p.value = a
                            r = None
                        else:
                            r = p.value
                    else:
                        r = getattr(p, name)(*args)
                    got = ('RET', r)
                except Exception as e:
                    c = e.__cause__
                    got = ('EXC', type(e).__name__, e.args, str(c) if c is not None else '')
            else:
                if via_hosted:
                    got = ag.cmd('call_with', 'maker', 'use_proxy', kind, (name, args))
                elif kind == 'ns':
                    # attribute protocol inside the agent: builtins applied to the held proxy
                    got = ag.cmd('thread_call' if party == 'agent_thread' else 'call', kind, name, args)
                else:
                    got = ag.cmd('thread_call' if party == 'agent_thread' else 'call', kind, name, args)
                if got == 'ok':
                    got = ('RET', None)
            # ---- compare
            if want[0] == 'RET':
                if got[0] != 'RET' or not _eq(got[1], want[1]):
                    sim.violation('result:%s' % ('raised-instead-of-returning' if got[0] != 'RET' else 'differs-from-direct-call'),
                                  {'n': n, 'op': op, 'got': repr(got)[:300], 'want': repr(want)[:200]})
                    break
            else:
                nraised += 1
                if got[0] != 'EXC':
                    sim.violation('exception:not-raised-in-the-caller', {'n': n, 'op': op, 'got': repr(got)[:200], 'want': repr(want)})
                    break
                if got[1] != want[1] or not _eq(tuple(got[2]), tuple(want[2])):
                    sim.violation('exception:type-or-args-differ', {'n': n, 'op': op, 'got': repr(got[:3])[:300], 'want': repr(want)})
                    break
                tb = got[3] if len(got) > 3 else ''
                if 'Traceback' not in tb or '_callmethod' not in tb:
                    sim.violation('exception:server-side-traceback-missing', {'n': n, 'op': op, 'cause_text': tb[-300:]})
                    break
        else:
            # final state visible through every proxy from every process
            final = {'list': list(px['list'][:] if False else [px['list'][j] for j in range(len(px['list']))]), 'dict': px['dict'].copy(), 'value': px['value'].get()}
            r = ag.cmd('call', 'dict', 'copy', ())
            r2 = ag.cmd('call', 'list', '__len__', ())
            if not _eq(final['list'], ref['list']) or not _eq(final['dict'], ref['dict']) or final['value'] != ref['value']:
                sim.violation('state:final-state-differs-from-reference', {'got': repr(final)[:300], 'want': repr({k: ref[k] for k in ('list', 'dict', 'value')})[:300]})
            elif r[0] != 'RET' or not _eq(r[1], ref['dict']) or r2 != ('RET', len(ref['list'])):
                sim.violation('state:not-visible-from-the-other-process', {'agent_dict': repr(r)[:200], 'agent_len': repr(r2)})
            # ---- concurrent phase: commuting ops from two processes at once
            k = sc.get('concurrent') or 0
            if k:
                base = len(ref['list'])

                def agent_side():
                    for j in range(k):
                        ag.cmd('call', 'list', 'append', (('A', j),))
                        ag.cmd('call', 'dict', '__setitem__', ('ak%d' % j, j))

                th = threading.Thread(target=agent_side, name='harness-concurrent-agent-driver', daemon=True)
                th.start()
                for j in range(k):
                    px['list'].append(('M', j))
                    px['dict']['mk%d' % j] = j
                th.join()
                tail = [px['list'][j] for j in range(base, len(px['list']))]
                want_tail = [('A', j) for j in range(k)] + [('M', j) for j in range(k)]
                if sorted(map(repr, tail)) != sorted(map(repr, want_tail)):
                    sim.violation('concurrent:appends-lost-or-duplicated', {'got': repr(tail)[:300]})
                if [t for t in tail if t[0] == 'A'] != [('A', j) for j in range(k)] or [t for t in tail if t[0] == 'M'] != [('M', j) for j in range(k)]:
                    sim.violation('concurrent:per-process-order-not-preserved', {'got': repr(tail)[:300]})
                d = px['dict'].copy()
                for j in range(k):
                    if d.get('ak%d' % j) != j or d.get('mk%d' % j) != j:
                        sim.violation('concurrent:dict-writes-lost', {'j': j})
                        break
        ag.quit()
        px.clear()
    return {'raised': nraised}


def _managed_use(sim, party, meth, a, px, ag):
    """managed() return values are live proxies to the hosted value, not copies"""
    items = list(range(a))
    if meth == 'shared_use':
        # two independently obtained proxies of one hosted value: dropping one must not disturb the other
        if party == 'main':
            mk = px['maker']
            p1 = mk.shared_list()
            p2 = mk.shared_list()
            n0 = len(p1)
            p1.append('s1')
            del p1
            try:
                p2.append('s2')
                ok = len(p2) == n0 + 2
            except Exception as e:
                return ('second-proxy-unusable-after-the-first-was-dropped', repr(e)[:200])
            if not ok:
                return ('state-not-shared-between-proxies-of-one-value', '')
        else:
            r1 = ag.cmd('callhold', 'maker', 'shared_list', (), 'tmp_s1')
            r2 = ag.cmd('callhold', 'maker', 'shared_list', (), 'tmp_s2')
            n0 = ag.cmd('call', 'tmp_s1', '__len__', ())
            ag.cmd('call', 'tmp_s1', 'append', ('s1',))
            ag.cmd('drop', 'tmp_s1')
            r3 = ag.cmd('thread_call' if party == 'agent_thread' else 'call', 'tmp_s2', 'append', ('s2',))
            r4 = ag.cmd('call', 'tmp_s2', '__len__', ())
            ag.cmd('drop', 'tmp_s2')
            if r3[0] != 'RET' or r4[0] != 'RET' or n0[0] != 'RET' or r4[1] != n0[1] + 2:
                return ('second-proxy-unusable-after-the-first-was-dropped', repr((r1, r2, n0, r3, r4))[:300])
        return None
    if party == 'main':
        mk = px['maker']
        if meth == 'make_use':
            p = mk.make_list(items)
            if type(p).__name__ != 'ListProxy':
                return ('returned-a-copy-instead-of-a-proxy', type(p).__name__)
            p.append('z')
            import pickle
            p2 = pickle.loads(pickle.dumps(p))
            if len(p2) != a + 1 or p2[a] != 'z':
                return ('mutation-not-visible-through-second-proxy', repr([len(p2)]))
        else:
            d = mk.make_nested(items)
            if d['plain'] != items or type(d['lst']).__name__ != 'ListProxy' or type(d['dct']).__name__ != 'DictProxy':
                return ('nested-structure-wrong', repr({k: type(x).__name__ for k, x in d.items()}))
            d['lst'].append(9)
            d['dct']['n'] = 1
            if len(d['lst']) != a + 1 or d['dct']['k'] != a or d['dct']['n'] != 1:
                return ('nested-proxy-not-live', '')
    else:
        cmd = 'call'
        if meth == 'make_use':
            r = ag.cmd('callhold', 'maker', 'make_list', (items,), 'tmp_m')
            r1 = ag.cmd('call', 'tmp_m', 'append', ('z',))
            r2 = ag.cmd('thread_call' if party == 'agent_thread' else 'call', 'tmp_m', '__len__', ())
            ag.cmd('drop', 'tmp_m')
            if r != 'ok' or r2 != ('RET', a + 1):
                return ('mutation-not-visible-through-proxy-in-client-process', repr((r, r1, r2))[:200])
        else:
            r = ag.cmd('callhold', 'maker', 'make_nested', (items,), 'tmp_n')
            r0 = ag.cmd('item_hold', 'tmp_n', 'lst', 'tmp_nl')
            r1 = ag.cmd('call', 'tmp_nl', 'append', (9,))
            r2 = ag.cmd('call', 'tmp_nl', '__len__', ())
            ag.cmd('drop', 'tmp_nl')
            ag.cmd('drop', 'tmp_n')
            if r != 'ok' or r2 != ('RET', a + 1):
                return ('nested-proxy-not-live-in-client-process', repr((r, r0, r1, r2))[:300])
    return None


def _eq(a, b):
    if isinstance(a, (list, tuple)) and isinstance(b, (list, tuple)):
        return len(a) == len(b) and all(_eq(x, y) for x, y in zip(a, b))
    if isinstance(a, dict) and isinstance(b, dict):
        return a.keys() == b.keys() and all(_eq(a[k], b[k]) for k in a)
    return type(a) is type(b) and a == b or (a == b and not isinstance(a, bool) and not isinstance(b, bool))
