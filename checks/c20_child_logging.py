"""C20 - child-process log records all reach the parent, once and in order."""
import logging
import sys
import threading
import time

from checks.common import swarm

ID = 'C20'
LEVEL = 'exploration'
NEEDS = ('threads', 'proc')
QUICK = dict(runs=7500, wall=85)
THOROUGH = dict(runs=150000, wall=1500)
RULE = ('child target (simulated process started through mpservice Process) emits k in {0,1,4,50,300,1200} records of size s in {20B,100B,2kB} '
        'at mixed levels through its own (per-process) root logger, the last one immediately before it returns / raises / sys.exit()s (also with a '
        'return value or exception payload that cannot be pickled); '
        'parent has a recording handler and a level setting; pipe capacity in {4KiB,64KiB}; starvation-weighted scheduling of the '
        "child's queue feeder thread and the parent's logger thread; the real multiprocessing.Queue (buffer, feeder thread, exit-time "
        'join) and logging.handlers.QueueHandler run over the simulated pipe; oracle: parent handled exactly the emitted records at or '
        'above its level, once, in order; the child exits; join/result return')
NONTRIVIAL_RULE = '>=2 threads runnable at the same step and at least one record emitted'
REAL = ['mpservice.multiprocessing.context.SpawnProcess (run: QueueHandler install/remove, queue close; _run_logger; _collect_result; _finalize)',
        'multiprocessing.queues.Queue (feeder thread, _finalize_join, _finalize_close)', 'logging.handlers.QueueHandler, Logger.handle']
STUB = ['process spawn/exit, pipes, semaphores (sim/osproc.py)', 'per-process logging root (a spawned interpreter starts unconfigured)',
        'thread scheduler', 'clock']


def gen(rng, tier):
    k = rng.choice([0, 1, 1, 4, 4, 50, 50, 300, 1200])
    size = rng.choice([20, 100, 2000])
    if k * size > 700_000:
        size = 100
    sc = {'k': k, 'size': size, 'ending': rng.choice(['return', 'return', 'return', 'raise', 'raise', 'exit0', 'exit3', 'return_unpicklable', 'raise_unpicklable']),
          'parent_level': rng.choice(['DEBUG', 'INFO', 'WARNING']),
          'levels': [rng.choice(['DEBUG', 'INFO', 'WARNING', 'ERROR']) for _ in range(5)],
          'gap': rng.choice([0, 0, 0, 0.0001]), 'tail_sleep': rng.choice([0, 0, 0.001]), 'accessor': rng.choice(['join', 'result', 'join']),
          'via': rng.choice(['process', 'process', 'process', 'servlet', 'pool'])}
    if sc['via'] == 'process' and rng.random() < 0.35:
        # accessors that time out while the child is still alive and still logging
        sc['early'] = [rng.choice(['join_t', 'result_t', 'exception_t', 'done']) for _ in range(rng.choice([1, 2, 3]))]
        sc['gap'] = rng.choice([0.0001, 0.001])
        sc['k'] = max(sc['k'], 4)
    if sc['via'] != 'process':
        sc['ending'] = 'return'
        sc['k'] = min(sc['k'], 300)
        sc['ncalls'] = rng.choice([1, 2, 3])
    cfg = swarm(rng, racy=0.1, line=0.1, strategies=('random', 'weighted', 'weighted', 'weighted', 'pct', 'sticky'),
                max_time=400.0, max_steps=3_000_000, pipe_cap=rng.choice([4096, 65536]))
    return {'scenario': sc, 'sim': cfg}


def shrink(sc):
    if sc['k'] > 0:
        yield dict(sc, k=sc['k'] // 2)
        yield dict(sc, k=sc['k'] - 1)
    if sc['size'] > 20:
        yield dict(sc, size=20)
    if sc['ending'] != 'return':
        yield dict(sc, ending='return')
    if sc['gap']:
        yield dict(sc, gap=0)
    if sc['tail_sleep']:
        yield dict(sc, tail_sleep=0)


def tags(sim, sc, obs):
    return ['via:' + sc.get('via', 'process'), 'k:%d' % sc['k'], 'size:%d' % sc['size'], 'ending:' + sc['ending'], 'pipe:%d' % sim.cfg.get('pipe_cap', 0),
            'volume-vs-pipe:' + ('exceeds' if sc['k'] * (sc['size'] + 400) > sim.cfg.get('pipe_cap', 65536) else 'fits')]


def nontrivial(sim, sc, obs):
    return sim.max_runnable >= 2 and sc['k'] >= 1


def target(sc):
    from sim.osproc import proc_logging
    lg = proc_logging.getLogger('harness.child')
    pad = 'x' * sc['size']
    for i in range(sc['k']):
        lv = getattr(logging, sc['levels'][i % len(sc['levels'])])
        lg.log(lv, 'rec %d %s', i, pad)
        if sc['gap']:
            time.sleep(sc['gap'])
    e = sc['ending']
    if e == 'return':
        return 'fine'
    if e == 'raise':
        raise KeyError('child failed')
    if e == 'return_unpicklable':
        return lambda: 1  # the value cannot be sent to the parent; the records before it still can
    if e == 'raise_unpicklable':
        raise ValueError('child failed', lambda: 1)
    if e == 'exit0':
        sys.exit(0)
    sys.exit(3)


class Rec(logging.Handler):
    def __init__(self):
        super().__init__(logging.DEBUG)
        self.got = []

    def emit(self, r):
        if r.name == 'harness.child':
            self.got.append(r.getMessage())


def pool_fn(sc, call_idx):
    emit(sc, call_idx)
    return call_idx


def emit(sc, call_idx=0):
    from sim.osproc import proc_logging
    lg = proc_logging.getLogger('harness.child')
    pad = 'x' * sc['size']
    for i in range(sc['k']):
        lv = getattr(logging, sc['levels'][i % len(sc['levels'])])
        lg.log(lv, 'rec %d.%d %s', call_idx, i, pad)
        if sc['gap']:
            time.sleep(sc['gap'])


_WORKER = {}


def log_worker_cls():
    if 'c' not in _WORKER:
        from mpservice.mpserver import Worker

        class LogWorker(Worker):
            def __init__(self, *, sc, **kw):
                super().__init__(**kw)
                self.sc = sc

            def call(self, x):
                emit(self.sc, x)
                return x

        LogWorker.__qualname__ = 'LogWorker'
        globals()['LogWorker'] = LogWorker
        _WORKER['c'] = LogWorker
    return _WORKER['c']


def run_indirect(sim, sc):
    """records logged by a ProcessServlet worker / a process-pool worker (both are mpservice Process objects underneath)"""
    root = logging.getLogger()
    rec = Rec()
    root.addHandler(rec)
    old_level = root.level
    root.setLevel(getattr(logging, sc['parent_level']))
    ncalls = sc.get('ncalls', 1)
    try:
        if sc['via'] == 'servlet':
            from mpservice.mpserver import Server, ProcessServlet
            with Server(ProcessServlet(log_worker_cls(), sc=sc), capacity=4) as server:
                for c in range(ncalls):
                    if server.call(c, timeout=300) != c:
                        sim.violation('outcome:wrong-result', {})
        else:
            from mpservice.concurrent.futures import ProcessPoolExecutor
            with ProcessPoolExecutor(1) as pool:
                for c in range(ncalls):
                    if pool.submit(pool_fn, sc, c, loud_exception=False).result(timeout=300) != c:
                        sim.violation('outcome:wrong-result', {})
    except Exception as e:
        sim.violation('outcome:raised', {'exc': repr(e)[:300]})
        return {}
    time.sleep(1.0)
    root.setLevel(old_level)
    root.removeHandler(rec)
    plevel = getattr(logging, sc['parent_level'])
    pad = 'x' * sc['size']
    want = ['rec %d.%d %s' % (c, i, pad) for c in range(ncalls) for i in range(sc['k']) if getattr(logging, sc['levels'][i % len(sc['levels'])]) >= plevel]
    got = rec.got
    if got != want:
        if len(got) < len(want) and got == want[:len(got)]:
            sig = 'records:lost-at-the-end'
        elif len(set(got)) != len(got):
            sig = 'records:duplicated'
        elif sorted(got) == sorted(want):
            sig = 'records:out-of-order'
        else:
            sig = 'records:lost'
        sim.violation(sig + ':via-' + sc['via'], {'got_n': len(got), 'want_n': len(want)})
    return {'n': len(got)}


def run(sim, sc):
    if sc.get('via', 'process') != 'process':
        return run_indirect(sim, sc)
    from mpservice.multiprocessing import Process
    root = logging.getLogger()
    rec = Rec()
    root.addHandler(rec)
    old_level = root.level
    root.setLevel(getattr(logging, sc['parent_level']))
    p = Process(target=target, args=(sc,), name='harness-logging-child')
    p.start()
    out = {}

    def waiter():
        from mpservice._common import TimeoutError as MPTimeout
        for a in sc.get('early', []):
            try:
                if a == 'join_t':
                    p.join(0.0003)
                elif a == 'result_t':
                    p.result(0.0003)
                elif a == 'exception_t':
                    p.exception(0.0003)
                else:
                    p.done()
            except BaseException as e:  # the child may already be done: join/result then report its (possibly SystemExit) failure
                import sim.core as core
                if isinstance(e, core.SimAbort):
                    raise
            sim.count('early_accessor_' + a)
        try:
            if sc['accessor'] == 'join':
                p.join()
                out['r'] = ('joined', None)
            else:
                out['r'] = ('result', p.result())
        except BaseException as e:
            import sim.core as core
            if isinstance(e, core.SimAbort):
                raise
            out['r'] = ('raised', type(e).__name__)

    th = threading.Thread(target=waiter, name='harness-joiner', daemon=True)
    th.start()
    th.join(300.0)
    if th.is_alive():
        pr = p._popen.proc
        sim.violation('liveness:%s' % ('child-cannot-exit' if pr.returncode is None else 'join-does-not-return-after-child-exit'),
                      {'child_returncode': pr.returncode, 'records_received': len(rec.got), 'k': sc['k']})
        return {}
    # let the parent's logger thread finish handling what has arrived
    time.sleep(1.0)
    if sc['tail_sleep']:
        time.sleep(sc['tail_sleep'])
    root.setLevel(old_level)
    root.removeHandler(rec)
    plevel = getattr(logging, sc['parent_level'])
    pad = 'x' * sc['size']
    want = ['rec %d %s' % (i, pad) for i in range(sc['k']) if getattr(logging, sc['levels'][i % len(sc['levels'])]) >= plevel]
    got = rec.got
    if got != want:
        def short(m):
            return m[:12]
        if len(got) < len(want) and got == want[:len(got)]:
            sig = 'records:lost-at-the-end'
        elif len(set(got)) != len(got):
            sig = 'records:duplicated'
        elif sorted(got) == sorted(want):
            sig = 'records:out-of-order'
        elif set(got) < set(want):
            sig = 'records:lost'
        else:
            sig = 'records:unexpected'
        sim.violation(sig, {'got_n': len(got), 'want_n': len(want), 'got_tail': [short(m) for m in got[-3:]], 'want_tail': [short(m) for m in want[-3:]]})
    e = sc['ending']
    r = out.get('r')
    if e in ('return', 'exit0'):
        if r is None or r[0] == 'raised':
            sim.violation('outcome:join-raised-for-a-successful-child', {'r': r})
    else:
        if r is None or r[0] != 'raised':
            sim.violation('outcome:failure-not-reported', {'r': r})
    return {'n': len(got)}
