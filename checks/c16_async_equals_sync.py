"""C16 - async variants give the same answers as their sync counterparts."""
import asyncio
import time
from concurrent.futures import ThreadPoolExecutor

from checks import streams, servers
from checks.common import swarm, exc_choice, note_exc

ID = 'C16'
LEVEL = 'exploration'
NEEDS = ('threads', 'aio')
QUICK = dict(runs=18000, wall=85)
THOROUGH = dict(runs=400000, wall=1500)
RULE = ('the same generated (inputs n<=12, per-element virtual durations => all completion orders, failing set, preprocessor failing set '
        'incl. the first element, elements whose worker result is None or an exception object that is returned rather than raised, '
        'return_x, return_exceptions, capacity/concurrency) is run through a sync function and its async '
        'counterpart(s): fifo_stream vs async_fifo_stream; Parmapper vs AsyncParmapper / AsyncParmapperAsync / ParmapperAsync; '
        'Server.stream vs AsyncServer.stream (same servlet); oracle: sync list == async list == reference')
NONTRIVIAL_RULE = '>=2 inputs, >=2 threads runnable at the same step'
REAL = ['fifo_stream, async_fifo_stream, Parmapper, ParmapperAsync, AsyncParmapper, AsyncParmapperAsync, Server.stream, AsyncServer.stream']
STUB = ['thread scheduler', 'clock', 'asyncio selector']
DELAYS = [0, 0, 0.001, 0.002, 0.005, 0.02]


def gen(rng, tier):
    n = rng.choice([0, 1, 2, 3, 4, 6, 8, 12])
    family = rng.choice(['fifo', 'fifo', 'parmap', 'parmap', 'server'])
    st = {'op': 'fifo', 'c': rng.choice([1, 2, 3]), 'cap': rng.choice([1, 2, 3, 5, n + 1]),
          'delays': [rng.choice(DELAYS) for _ in range(rng.choice([1, 3, 5]))],
          'return_x': rng.random() < 0.5, 'return_exceptions': rng.random() < 0.6}
    if n and rng.random() < 0.5:
        st['fail'] = {'idx': sorted(rng.sample(range(n), min(n, rng.choice([1, 1, 2])))), 'exc': exc_choice(rng, ['ExcA', 'ExcB', 'ExcC', 'KeyError'])}
    if rng.random() < 0.6:
        st['pre'] = True
        if n and rng.random() < 0.8:
            st['pre_fail'] = {'idx': sorted(rng.sample(range(n), min(n, rng.choice([1, 1, 2])))), 'exc': exc_choice(rng, ['ExcA', 'ExcB', 'KeyError'])}
            if rng.random() < 0.4:
                st['pre_fail']['idx'] = sorted(set(st['pre_fail']['idx']) | {0})
    sc = {'n': n, 'family': family, 'stages': [st], 'src_delays': [rng.choice([0, 0, 0.001])]}
    if family == 'fifo' and n and rng.random() < 0.3:
        # the submitting function itself refuses an element (as Server._enqueue does with ServerBacklogFull): both variants
        # must end the stream with that error after the earlier results - it is not the element's result
        sc['submit_fail'] = {'idx': rng.randrange(n), 'exc': exc_choice(rng, ['ExcA', 'KeyError'])}
    if family == 'server':
        st['return_x'] = True  # harness needs x to attribute server results
        sc['capacity'] = rng.choice([1, 2, 4, 16])
        sc['workers'] = rng.choice([1, 2, 3])
        sc['batch'] = rng.choice([0, 0, 2])
    cfg = swarm(rng, racy=0.15, line=0.25, max_time=300.0, max_steps=600_000)
    # (drawn last, so that the scenarios of earlier seeds keep everything else)
    if family != 'server' and n and rng.random() < 0.3:
        # unusual but legal worker RESULTS: None, and an exception OBJECT returned (not raised) - a value like any other in the sync
        # functions, with or without return_exceptions, hence in the async ones too
        free = [i for i in range(n) if not (st.get('fail') and i in st['fail']['idx'])]
        if free and rng.random() < 0.4:
            st['none'] = {'idx': sorted(rng.sample(free, min(len(free), rng.choice([1, 2, n]))))}
        free = [i for i in free if not (st.get('none') and i in st['none']['idx'])]
        if free and (not st.get('none') or rng.random() < 0.5):
            st['ret_exc'] = {'idx': sorted(rng.sample(free, min(len(free), rng.choice([1, 2])))), 'exc': rng.choice(['ExcA', 'KeyError', 'ExcC'])}
    return {'scenario': sc, 'sim': cfg}


def shrink(sc):
    st = sc['stages'][0]
    if sc['n'] > 0:
        n = sc['n'] - 1
        st2 = dict(st)
        for key in ('fail', 'pre_fail', 'none', 'ret_exc'):
            if st2.get(key):
                st2[key] = dict(st2[key], idx=[i for i in st2[key]['idx'] if i < n])
        yield dict(sc, n=n, stages=[st2])
    if any(st['delays']):
        yield dict(sc, stages=[dict(st, delays=[0])])
    for key in ('return_exceptions', 'pre'):
        if st.get(key):
            st2 = dict(st)
            st2[key] = False
            if key == 'pre':
                st2.pop('pre_fail', None)
            yield dict(sc, stages=[st2])
    if st.get('return_x') and sc['family'] != 'server':
        yield dict(sc, stages=[dict(st, return_x=False)])
    for key in ('fail', 'none', 'ret_exc'):
        if st.get(key):
            st2 = dict(st)
            st2.pop(key)
            yield dict(sc, stages=[st2])


def tags(sim, sc, obs):
    t = ['family:' + sc['family']]
    st = sc['stages'][0]
    if st.get('pre_fail'):
        t.append('preprocessor-rejects' + (':first-element' if 0 in st['pre_fail']['idx'] else ''))
    if st.get('ret_exc'):
        t.append('worker-returns-exception-object' + ('' if st.get('return_exceptions') else ':return_exceptions-off'))
    if st.get('none'):
        t.append('worker-returns-None')
    for v in obs.get('variants', []):
        t.append('variant:' + v)
    return t


def nontrivial(sim, sc, obs):
    return sc['n'] >= 2 and sim.max_runnable >= 2


def _collect_sync(it):
    outs, raised = [], None
    try:
        for y in it:
            outs.append(streams.norm_out(y))
    except Exception as e:
        raised = streams.exc_obs(e)
    return outs, raised


async def _collect_async(ait):
    outs, raised = [], None
    try:
        async for y in ait:
            outs.append(streams.norm_out(y))
    except Exception as e:
        raised = streams.exc_obs(e)
    return outs, raised


def run(sim, sc):
    from mpservice.streamer import fifo_stream, async_fifo_stream, Parmapper
    from mpservice.streamer._streamer import ParmapperAsync
    from mpservice.streamer._streamer_async import AsyncParmapper, AsyncParmapperAsync
    st = sc['stages'][0]
    n = sc['n']
    flags = dict(return_x=bool(st.get('return_x')), return_exceptions=bool(st.get('return_exceptions')))
    pre = streams.preproc_fn(st.get('pre_fail')) if st.get('pre') else None
    want = streams.reference(dict(sc, stages=[st]))
    sf = sc.get('submit_fail')
    if sf is not None:
        rejected = set(st['pre_fail']['idx']) if st.get('pre_fail') else set()
        if sf['idx'] not in rejected:  # a rejected element never reaches the submitting function
            wo, we = streams.reference(dict(sc, n=sf['idx'], stages=[st]))
            if we is None:
                we = [sf['exc'], sf['idx']]
            want = (wo, we)
        else:
            sf = None
    results = {}
    fam = sc['family']

    def newfn(name):
        return streams.StageFn(sim, streams.PAR_ADD, st['delays'], st.get('fail'), name=name, none=st.get('none'), ret_exc=st.get('ret_exc'))

    if fam == 'fifo':
        fn = newfn('sync')
        pool = ThreadPoolExecutor(st['c'], thread_name_prefix='harness-pool')

        def submit(x):
            if sf is not None and streams.idx_of(x) == sf['idx']:
                streams._raise(sf['exc'], x)
            return pool.submit(fn, x)

        results['fifo_stream'] = _collect_sync(fifo_stream(streams.Source(sim, n, sc['src_delays']), submit,
                                                           capacity=st['cap'], preprocessor=pre, **flags))
        pool.shutdown(wait=True)
        afn = streams.make_async_fn(newfn('async'))

        async def main():
            async def func(x):
                if sf is not None and streams.idx_of(x) == sf['idx']:
                    streams._raise(sf['exc'], x)
                return asyncio.get_running_loop().create_task(afn(x))
            return await _collect_async(async_fifo_stream(streams.AsyncSource(sim, n, sc['src_delays']), func,
                                                          capacity=st['cap'], preprocessor=pre, **flags))

        results['async_fifo_stream'] = asyncio.run(main())
    elif fam == 'parmap':
        results['Parmapper'] = _collect_sync(Parmapper(streams.Source(sim, n, sc['src_delays']), newfn('s'), executor='thread',
                                                       concurrency=st['c'], preprocessor=pre, **flags))
        results['ParmapperAsync'] = _collect_sync(ParmapperAsync(streams.Source(sim, n, sc['src_delays']), streams.make_async_fn(newfn('sa')),
                                                                 concurrency=st['c'], preprocessor=pre, **flags))

        async def main(cls, **kw):
            return await _collect_async(cls(streams.AsyncSource(sim, n, sc['src_delays']), concurrency=st['c'], preprocessor=pre, **flags, **kw))

        results['AsyncParmapper'] = asyncio.run(main(lambda src, **kw: AsyncParmapper(src, newfn('as'), executor='thread', **kw)))
        results['AsyncParmapperAsync'] = asyncio.run(main(lambda src, **kw: AsyncParmapperAsync(src, streams.make_async_fn(newfn('aa')), **kw)))
    else:
        from mpservice.mpserver import Server, AsyncServer
        tree = {'t': 'thread', 'tag': 'A', 'n': sc['workers'], 'delays': st['delays']}
        if sc.get('batch'):
            tree['b'] = sc['batch']
            tree['w'] = 0.002
        if st.get('fail'):
            tree['fail'] = {'xs': st['fail']['idx'], 'exc': st['fail']['exc']}
        # server results are ['A', x]; map them into the stream-reference space
        def conv(res):
            outs, raised = res
            o2 = []
            for o in outs:
                x, y = o
                if isinstance(y, list) and y[:1] == ['A']:
                    y = y[1] + streams.PAR_ADD
                elif isinstance(y, list) and y[:1] == ['EXC']:
                    y = ['EXC', y[1], x]
                o2.append([x, y])
            return o2, raised

        def norm_server_exc(res):
            outs, raised = res
            return outs, raised

        del servers.LOG[:]
        with Server(servers.build_servlet(tree), capacity=sc['capacity']) as server:
            results['Server.stream'] = conv(_collect_server_sync(server.stream(streams.Source(sim, n, sc['src_delays']), preprocessor=pre, **flags)))

        async def main():
            async with AsyncServer(servers.build_servlet(tree), capacity=sc['capacity']) as server:
                return conv(await _collect_server_async(server.stream(streams.AsyncSource(sim, n, sc['src_delays']), preprocessor=pre, **flags)))

        results['AsyncServer.stream'] = asyncio.run(main())
        if sc.get('batch') and st.get('fail'):
            # batch-mates of a failing element legitimately fail; composition of batches is schedule-dependent,
            # so only elements untouched by failures are compared with the reference
            want = None
    names = list(results)
    first = results[names[0]]
    for nm in names[1:]:
        if want is not None and results[nm] != first:
            sim.violation('sync-async:%s-differs-from-%s' % (nm, names[0]), {names[0]: first, nm: results[nm], 'reference': want})
    if want is not None:
        for nm in names:
            outs, raised = results[nm]
            wo, we = want
            ok = outs == wo[:len(outs)] and ((raised is None and we is None and len(outs) == len(wo)) or
                                            (raised is not None and we is not None and raised[0] == we[0] and len(outs) == len(wo)
                                             and (raised[1] is None or raised[1] == we[1])))
            if not ok:
                sim.violation('reference:%s-differs-from-reference' % nm, {'got': results[nm], 'want': want})
    return {'variants': names}


def _server_norm(x, y):
    if isinstance(y, BaseException):
        note_exc(y)
        return [x, ['EXC', type(y).__name__, x]]
    return [x, servers.norm_value(y)]


def _collect_server_sync(it):
    outs, raised = [], None
    try:
        for x, y in it:
            outs.append(_server_norm(x, y))
    except Exception as e:
        note_exc(e)
        raised = [type(e).__name__, None]
    return outs, raised


async def _collect_server_async(ait):
    outs, raised = [], None
    try:
        async for x, y in ait:
            outs.append(_server_norm(x, y))
    except Exception as e:
        note_exc(e)
        raised = [type(e).__name__, None]
    return outs, raised
