"""C09 - workers see well-formed batches; no request waits for a full batch."""
import pickle
import threading
import time

from checks import servers
from checks.common import swarm, make_exc, exc_choice

ID = 'C09'
LEVEL = 'exploration'
NEEDS = ('threads',)
QUICK = dict(runs=24000, wall=85)
THOROUGH = dict(runs=500000, wall=1500)
RULE = ('Worker.run driven directly: 1-3 competing worker threads on one _SimpleThreadQueue, batch_size in {0,1,2,3,5}, batch_wait_time in '
        '{0,10ms,1s}, optional preprocess rejecting a subset, optional in-worker thread pool (num_stream_threads=2); the driver puts '
        '(uid, x) items - including pre-failed RemoteException / remote-exception values - at generated virtual times (bursts, lone items, '
        'trickle, pauses) and finally None; observation: arguments+time logged by call, a harness wrapper on SingleLane.get records when '
        'the batch consumer took each element; x seeded schedule of collector thread / batch consumer / competing workers')
NONTRIVIAL_RULE = '>=2 threads runnable at the same step and at least 2 inputs were accepted'
REAL = ['mpservice.mpserver._worker.Worker (run, start, _start_single, _start_batch, _build_input_batches, _get_input_batch, stream)',
        'mpservice._queues.SingleLane', 'Parmapper (in-worker pool runs)']
STUB = ['thread scheduler', 'clock']
ASSUMPTIONS = ['release-time clauses are evaluated in exact-time runs without line pre-emption only']


def gen(rng, tier):
    b = rng.choice([0, 1, 2, 2, 3, 5])
    w = 0 if b <= 1 else rng.choice([0, 0.01, 0.01, 1.0])
    nworkers = rng.choice([1, 1, 2, 3])
    n = rng.choice([1, 2, 3, 5, 8, 12, 18, 26, 34])
    base = w if w else 0.01
    items = []
    burst = n > 12  # a backlog larger than the worker's internal batch buffer (batch_size+10): the collector meets a full buffer
    for i in range(n):
        kind = 'x'
        r = rng.random()
        if r < 0.08:
            kind = 'remote_exc_obj'  # RemoteException instance (thread queue upstream)
        elif r < 0.14:
            kind = 'remote_exc'  # exception that crossed a pickle hop
        items.append({'x': i + 1, 'kind': kind, 'gap': 0 if (burst and rng.random() < 0.9) else rng.choice([0, 0, 0, base / 2, base, base * 1.5, 0.001, 'pause'])})
    if burst:
        nworkers = rng.choice([1, 1, 2])
    sc = {'b': b, 'w': w, 'nworkers': nworkers, 'items': items, 'delays': rng.choice([[0.002], [0.02], [0.3], [0.02, 0, 0, 0, 0, 0, 0], [0.3, 0, 0, 0, 0, 0, 0, 0, 0, 0, 0]]) if burst else [rng.choice([0, 0, 0.002, 0.02, 0.3])],
          'stream_threads': 2 if rng.random() < 0.15 else 0, 'final_pause': rng.random() < 0.5}
    if rng.random() < 0.35:
        good = [it['x'] for it in items if it['kind'] == 'x']
        if good:
            sc['pre_fail'] = {'xs': sorted(rng.sample(good, min(len(good), rng.choice([1, 2])))), 'exc': exc_choice(rng, ['ExcA', 'ExcB'])}
        else:
            sc['pre'] = True
    if rng.random() < 0.2:
        good = [it['x'] for it in items if it['kind'] == 'x']
        if good:
            sc['fail'] = {'xs': sorted(rng.sample(good, 1)), 'exc': 'ExcC'}
    cfg = swarm(rng, racy=0.2, line=0.3, max_time=800.0, max_steps=600_000)
    if burst and nworkers == 1 and rng.random() < 0.4:
        sc['prefill'] = True
        if rng.random() < 0.5:
            sc['stream_threads'] = 2
            if sc['b'] == 2:
                sc['b'] = 3
    if burst and rng.random() < 0.6:
        # collector meets a full hand-off buffer: hold single threads back for long stretches (the other side then runs through
        # many get/put rounds before the held thread acts on what it saw)
        cfg['p_starve'] = rng.choice([0.01, 0.03, 0.05, 0.1])
        cfg['p_slowstart'] = rng.choice([0.0, 0.1, 0.3])
    return {'scenario': sc, 'sim': cfg}


def shrink(sc):
    its = sc['items']
    for i in range(len(its)):
        if len(its) > 1:
            yield dict(sc, items=its[:i] + its[i + 1:])
    for i, it in enumerate(its):
        if it['gap']:
            yield dict(sc, items=its[:i] + [dict(it, gap=0)] + its[i + 1:])
        if it['kind'] != 'x':
            yield dict(sc, items=its[:i] + [dict(it, kind='x')] + its[i + 1:])
    if sc['nworkers'] > 1:
        yield dict(sc, nworkers=sc['nworkers'] - 1)
    if sc.get('stream_threads'):
        yield dict(sc, stream_threads=0)
    if sc.get('prefill'):
        yield dict(sc, prefill=False)
    if any(sc['delays']):
        yield dict(sc, delays=[0])
    for k in ('pre_fail', 'fail', 'pre'):
        if sc.get(k):
            yield {kk: v for kk, v in sc.items() if kk != k}


def tags(sim, sc, obs):
    t = ['b:%d' % sc['b'], 'w:%g' % sc['w'], 'workers:%d' % sc['nworkers']]
    if obs.get('partial'):
        t.append('partial-batch-released')
    if obs.get('full'):
        t.append('full-batch')
    return t


def nontrivial(sim, sc, obs):
    return sim.max_runnable >= 2 and obs.get('accepted', 0) >= 2


def run(sim, sc):
    from mpservice.mpserver._worker import _SimpleThreadQueue
    from mpservice._queues import SingleLane
    from mpservice.multiprocessing.remote_exception import RemoteException
    from mpservice.threading import Thread
    del servers.LOG[:]
    cls = servers.worker_classes()
    b, w = sc['b'], sc['w']
    wc = cls['TagWorkerPre'] if (sc.get('pre_fail') or sc.get('pre')) else cls['TagWorker']
    takes = []  # (t, uid) when the batch consumer took an element from a batch buffer
    orig_get = SingleLane.get

    def rec_get(self, block=True, timeout=None):
        z = orig_get(self, block, timeout)
        if isinstance(z, tuple) and len(z) == 2 and isinstance(z[0], int):
            takes.append((sim.now, z[0], id(self)))
        return z

    SingleLane.get = rec_get
    q_in, q_out = _SimpleThreadQueue(), _SimpleThreadQueue()
    kw = dict(tag='W', delays=sc['delays'], fail=sc.get('fail'), pre_fail=sc.get('pre_fail'), stream_threads=sc.get('stream_threads', 0))
    if b:
        kw['batch_size'] = b
        if b > 1:
            kw['batch_wait_time'] = w
    put_t = {}
    kinds = {}
    uid_of = {}
    prefill = bool(sc.get('prefill')) and sc['nworkers'] == 1

    def put_item(it):
        uid = 1000 + it['x']
        uid_of[it['x']] = uid
        x = it['x']
        if it['kind'] != 'x':
            try:
                raise make_exc('KeyError', x)
            except Exception as e:
                x = RemoteException(e)
            if it['kind'] == 'remote_exc':
                x = pickle.loads(pickle.dumps(x))
        kinds[uid] = it['kind']
        put_t[uid] = sim.now
        q_in.put((uid, x))

    if prefill:
        # the requests are already queued when the worker comes up (a server that starts with a backlog)
        for it in sc['items']:
            put_item(it)
    workers = []
    outputs = {}  # uid -> [(t, y)]
    for i in range(sc['nworkers']):
        th = Thread(target=wc.run, name=f'worker-{i}', kwargs=dict(q_in=q_in, q_out=q_out, worker_index=i, **kw))
        th.start()
        name = q_out.get()
        while isinstance(name, tuple):  # with a prefilled queue nothing can precede the init message, but be safe
            outputs.setdefault(name[0], []).append((sim.now, name[1]))
            name = q_out.get()
        if name is None:
            sim.violation('worker:init-failed', {})
            return {}
        workers.append(th)

    nones = [0]
    done = threading.Event()

    def collector():
        # keeps reading the output queue; end markers are counted, not trusted as "last item"
        while True:
            z = q_out.get()
            if z == 'HARNESS-STOP':
                break
            if z is None:
                nones[0] += 1
                continue
            uid, y = z
            outputs.setdefault(uid, []).append((sim.now, y))
        done.set()

    cth = threading.Thread(target=collector, name='harness-collector', daemon=True)
    cth.start()

    exact = sim.time_mode == 'exact' and not sim.line_p
    svc = max(sc['delays']) if sc['delays'] else 0
    outstanding = len(sc['items']) if prefill else 0

    def quiesce(label):
        # generous bound valid in exact time: everything outstanding processed serially, each waiting its full batch wait
        time.sleep((outstanding + 1) * (svc + w) + 1.0)
        if exact:
            missing = [u for u in put_t if u not in outputs]
            if missing:
                sim.violation('liveness:request-not-served-without-more-input' + (':lone' if len(put_t) == 1 else ''),
                              {'missing_uids': missing, 'at': label, 'b': b, 'w': w})

    for it in ([] if prefill else sc['items']):
        g = it['gap']
        if g == 'pause':
            quiesce('pause')
            outstanding = 0
        elif g:
            time.sleep(g)
        put_item(it)
        outstanding += 1
    if sc.get('final_pause'):
        quiesce('final')
    q_in.put(None)
    for th in workers:
        th.join()
    q_out.put('HARNESS-STOP')
    done.wait()
    SingleLane.get = orig_get
    if nones[0] < sc['nworkers']:
        sim.violation('shutdown:end-marker-not-forwarded-by-every-worker', {'nones': nones[0], 'workers': sc['nworkers']})

    # ---------------- oracle
    rejected = set(1000 + x for x in (sc.get('pre_fail') or {}).get('xs', []))
    prefailed = set(u for u, k in kinds.items() if k != 'x')
    accepted = set(put_t) - rejected - prefailed
    seen_in_call = {}
    partial = full = 0
    first_take = {}
    for t, uid, qid in takes:
        first_take.setdefault(uid, t)
    for tag, wi, payload, t_call in servers.LOG:
        if b > 0:
            if not isinstance(payload, list) or not payload:
                sim.violation('batch:call-argument-is-not-a-non-empty-list', {'arg': repr(payload)[:100], 'b': b})
                continue
            if len(payload) > b:
                sim.violation('batch:larger-than-batch_size', {'size': len(payload), 'b': b})
            elems = payload
            if len(payload) < b:
                partial += 1
            else:
                full += 1
        else:
            if isinstance(payload, list):
                sim.violation('batch:list-passed-although-batch_size-is-0', {'arg': repr(payload)[:100]})
                continue
            elems = [payload]
        for e in elems:
            if not isinstance(e, int):
                sim.violation('batch:non-input-value-reached-call', {'value': repr(e)[:100]})
                continue
            u = 1000 + e
            if u in rejected or u in prefailed:
                sim.violation('batch:rejected-or-pre-failed-element-reached-call', {'x': e})
            seen_in_call[u] = seen_in_call.get(u, 0) + 1
        if b > 1 and exact and all(isinstance(e, int) for e in elems):
            t0 = min(first_take.get(1000 + e, t_call) for e in elems)
            if t_call - t0 > w + 1e-9 and not sc.get('stream_threads'):
                sim.violation('timing:batch-released-later-than-batch_wait_time-after-first-element', {'t_first_taken': t0, 't_call': t_call, 'w': w, 'batch': elems})
    for u in accepted:
        c = seen_in_call.get(u, 0)
        if c != 1:
            sim.violation('batch:accepted-input-in-%s-batches' % ('no' if c == 0 else 'several'), {'x': u - 1000, 'count': c})
    failx = set(1000 + x for x in (sc.get('fail') or {}).get('xs', []))
    for u in put_t:
        outs = outputs.get(u, [])
        if len(outs) != 1:
            sim.violation('output:request-has-%d-outputs' % len(outs), {'x': u - 1000, 'kind': kinds[u]})
            continue
        y = outs[0][1]
        if u in accepted:
            if isinstance(y, RemoteException):
                # legitimate only for a batch containing a planned call failure
                bt = servers.exc_batch(y.exc)
                if not (bt and (u - 1000) in bt and any((1000 + v) in failx for v in bt)):
                    sim.violation('output:accepted-input-got-an-error', {'x': u - 1000, 'err': repr(y)[:200]})
            elif y != ['W', u - 1000]:
                sim.violation('output:wrong-value', {'x': u - 1000, 'got': repr(y)[:100]})
        else:
            if not isinstance(y, RemoteException):
                sim.violation('output:rejected-or-pre-failed-input-got-a-value', {'x': u - 1000, 'got': repr(y)[:100]})
            else:
                want = 'KeyError' if u in prefailed else sc['pre_fail']['exc']
                if type(y.exc).__name__ != want:
                    sim.violation('output:wrong-exception-for-short-circuited-input', {'x': u - 1000, 'got': type(y.exc).__name__, 'want': want})
    if partial:
        sim.count('partial_batches', partial)
    if full:
        sim.count('full_batches', full)
    return {'accepted': len(accepted), 'partial': partial, 'full': full}
