"""C18 - socket and pipe transports deliver intact and to the right request."""
import asyncio
import os
import threading
import time

from checks.common import swarm, ExcA, ExcC

ID = 'C18'
LEVEL = 'exploration'
NEEDS = ('threads', 'aio', 'proc')
PROC_READY = True
QUICK = dict(runs=7500, wall=85)
THOROUGH = dict(runs=150000, wall=1500)
RULE = ('socket: real SocketServer.serve() in one simulated thread/loop, real SocketClient (its executor thread and loop), 1-4 connections, '
        '1-4 requester threads plus stream(); routes: echo with payload-determined latency (responses complete out of order), raising '
        'route (exception class varies with the request: custom, TimeoutError, KeyError, OSError, ValueError), no-argument route, a stream route failing every third request; payloads: bytes with newlines / header-like text, empty bytes and str, 0 / False, nested structures, '
        'sizes straddling 64 KiB (StreamReader limit, transport high-water mark) up to 3.3 MB; transport faults: each write cut at up to 6 '
        'arbitrary points (half of them inside the header line), per-chunk delivery delay, write flow-control pauses; adversarial id() '
        'reuse for the client request ids. pipe (simulated FIFOs, process runs): both directions concurrently, short reads/writes')
NONTRIVIAL_RULE = '>=2 requests in flight together (>=2 threads runnable at some step) and at least one fragmented write'
REAL = ['mpservice.socket (SocketServer, SocketApplication, SocketClient, write_record/read_record)', 'asyncio StreamReader/StreamWriter/'
        'StreamReaderProtocol, BaseEventLoop', 'mpservice.pipe over multiprocessing.connection.Connection (process runs)']
STUB = ['unix-socket transport (in-memory, sim/aio.py)', 'thread scheduler', 'clock', 'selector', 'FIFOs (sim/osproc.py)']
ASSUMPTIONS = ['peer disconnects are outside the statement and are not injected']


def _payload(rng, seq):
    k = rng.choice(['bytes_nl', 'header_like', 'empty_b', 'empty_s', 'zero', 'false', 'nested', 'big', 'big', 'str', 'int', 'huge'])
    return {'kind': k, 'seq': seq, 'size': rng.choice([1, 100, 65000, 65536, 65537, 70000, 131072, 200000]) if k in ('big',) else
            (rng.choice([600000, 1100000, 1100000, 3300000]) if k == 'huge' else rng.choice([0, 5, 50, 300]))}


def mk_payload(p):
    k, seq, size = p['kind'], p['seq'], p['size']
    tag = ('#%d#' % seq)
    if k == 'bytes_nl':
        return (tag.encode() + b'\n12 34 pickle\n' * 3 + b'x' * size + b'\n')
    if k == 'header_like':
        return '%s 5 pickle\n%s' % (seq, tag) + 'y' * size
    if k == 'empty_b':
        return b''
    if k == 'empty_s':
        return ''
    if k == 'zero':
        return 0
    if k == 'false':
        return False
    if k == 'nested':
        return {'seq': seq, 'l': [1, (2, 3), {'a': b'\n' * 3}], 's': 'z' * size}
    if k in ('big', 'huge'):
        return tag.encode() + bytes((i * 7 + seq) % 251 for i in range(min(size, 4096))) * (size // 4096 + 1)
    if k == 'str':
        return tag + 'é\n' * size
    return seq


def gen_pipe(rng):
    def objs():
        out = []
        for _ in range(rng.choice([1, 3, 6, 12])):
            k = rng.choice(['int', 'str', 'bytes', 'nested', 'big'])
            out.append({'kind': k, 'size': rng.choice([0, 10, 16000, 16384, 16385, 20000, 70000]) if k in ('bytes', 'big', 'str') else 3})
        return out
    sc = {'transport': 'pipe', 'to_client': objs(), 'to_server': objs(), 'concurrent': rng.random() < 0.6,
          'use_bytes_api': rng.random() < 0.3}
    cfg = swarm(rng, racy=0.1, line=0.2, max_time=300.0, max_steps=2_000_000, pipe_cap=rng.choice([512, 4096, 65536]), p_short_io=rng.choice([0.3, 0.7]))
    return {'scenario': sc, 'sim': cfg}


def gen(rng, tier):
    if PROC_READY and rng.random() < 0.25:
        return gen_pipe(rng)
    seqs = iter(range(1, 10000))
    threads = []
    for ti in range(rng.choice([1, 2, 3, 4])):
        ops = []
        for _ in range(rng.choice([1, 2, 3, 5])):
            r = rng.random()
            if r < 0.6:
                op = {'op': 'request', 'route': rng.choice(['/echo', '/echo', '/echo', '/raise', '/noarg']), 'p': _payload(rng, next(seqs)),
                      'lat': rng.choice([0, 0, 0.001, 0.01, 0.05])}
                if rng.random() < 0.2:
                    # the caller gives up before the handler is done; the late response must not reach anybody else
                    op['route'] = '/echo'
                    op['lat'] = rng.choice([0.02, 0.05, 0.2])
                    op['give_up_after'] = rng.choice([0.0005, 0.005, 0.015])
                ops.append(op)
            else:
                ops.append({'op': 'stream', 'ps': [_payload(rng, next(seqs)) for _ in range(rng.choice([1, 3, 6]))],
                            'lats': [rng.choice([0, 0.001, 0.02]) for _ in range(3)], 'return_x': rng.random() < 0.5,
                            'route': rng.choice(['/echo', '/echo', '/flaky']),
                            # a data iterable that is itself slow (multiples of the client's 0.1 s polling interval included)
                            'src_gaps': [rng.choice([0, 0, 0, 0.05, 0.1, 0.1, 0.2, 0.3]) for _ in range(3)]})
        threads.append({'ops': ops})
    sc = {'threads': threads, 'nconn': rng.choice([1, 1, 2, 4]), 'frag': rng.choice([0.0, 0.5, 0.9])}
    nhuge = sum(1 for t in threads for op in t['ops'] for p in ([op['p']] if op['op'] == 'request' else op['ps']) if p['kind'] == 'huge')
    cfg = swarm(rng, racy=0.1, line=0.1, max_time=600.0, max_steps=2_000_000, id_reuse=rng.choice([0.0, 0.5, 0.95]))
    return {'scenario': sc, 'sim': cfg}


def shrink(sc):
    if sc.get('transport') == 'pipe':
        for key in ('to_client', 'to_server'):
            for i in range(len(sc[key])):
                yield dict(sc, **{key: sc[key][:i] + sc[key][i + 1:]})
        if sc['concurrent']:
            yield dict(sc, concurrent=False)
        return
    ts = sc['threads']
    for i in range(len(ts)):
        if len(ts) > 1:
            yield dict(sc, threads=ts[:i] + ts[i + 1:])
    for i, t in enumerate(ts):
        for j in range(len(t['ops'])):
            if len(t['ops']) > 1:
                yield dict(sc, threads=ts[:i] + [{'ops': t['ops'][:j] + t['ops'][j + 1:]}] + ts[i + 1:])
        for j, op in enumerate(t['ops']):
            if op['op'] == 'stream' and len(op['ps']) > 1:
                yield dict(sc, threads=ts[:i] + [{'ops': t['ops'][:j] + [dict(op, ps=op['ps'][:-1])] + t['ops'][j + 1:]}] + ts[i + 1:])
    if sc['nconn'] > 1:
        yield dict(sc, nconn=1)


def tags(sim, sc, obs):
    if sc.get('transport') == 'pipe':
        return ['transport:pipe', 'pipe_cap:%d' % sim.cfg.get('pipe_cap', 0)] + sorted(set('pipe-object:' + o['kind'] for o in sc['to_client'] + sc['to_server']))
    t = ['transport:socket', 'connections:%d' % sc['nconn']]
    for th in sc['threads']:
        for op in th['ops']:
            for p in ([op['p']] if op['op'] == 'request' else op['ps']):
                t.append('payload:' + p['kind'])
    return sorted(set(t))


def nontrivial(sim, sc, obs):
    if sc.get('transport') == 'pipe':
        return sim.max_runnable >= 2 and (sim.counters.get('short_read', 0) + sim.counters.get('short_write', 0)) > 0
    return sim.max_runnable >= 2 and sim.counters.get('net_fragmented_writes', 0) > 0


def pipe_obj(o, i, direction):
    k, size = o['kind'], o['size']
    if k == 'int':
        return i
    if k == 'str':
        return '%s%d:' % (direction, i) + 's' * size
    if k == 'bytes':
        return bytes((j * 3 + i) % 251 for j in range(min(size, 1024))) * (size // 1024 + 1) if size else b''
    if k == 'nested':
        return {'i': i, 'd': direction, 'l': [1, (2, 3), b'\n' * 3]}
    return [direction, i, 'b' * size]


def pipe_client_proc(path, sc):
    """runs in a simulated process: receives what the server sends, sends its own objects back (concurrently if asked)"""
    import threading
    from mpservice.pipe import Client
    c = Client(path)
    got = []

    def sender():
        for i, o in enumerate(sc['to_server']):
            x = pipe_obj(o, i, 'S')
            if sc['use_bytes_api'] and isinstance(x, bytes):
                c.send_bytes(x)
            else:
                c.send(x)

    th = None
    if sc['concurrent']:
        th = threading.Thread(target=sender, name='harness-pipe-client-sender')
        th.start()
    for i, o in enumerate(sc['to_client']):
        x = pipe_obj(o, i, 'C')
        if sc['use_bytes_api'] and isinstance(x, bytes):
            got.append(c.recv_bytes())
        else:
            got.append(c.recv())
    if th is None:
        sender()
    else:
        th.join()
    # stay alive until the peer has read everything: a FIFO whose last descriptor is closed discards what is still buffered
    # (kernel behaviour, not a property of the transport)
    if c.recv() != 'HARNESS-DONE':
        got.append('BAD-HANDSHAKE')
    return got


def run_pipe(sim, sc):
    import threading
    from mpservice.multiprocessing import Process
    from mpservice.pipe import Server
    path = '/sim/fifo/p%d' % 1
    srv = Server(path)
    p = Process(target=pipe_client_proc, args=(path, sc), name='harness-pipe-client')
    p.start()
    got = []

    def receiver():
        for i, o in enumerate(sc['to_server']):
            x = pipe_obj(o, i, 'S')
            if sc['use_bytes_api'] and isinstance(x, bytes):
                got.append(srv.recv_bytes())
            else:
                got.append(srv.recv())

    th = threading.Thread(target=receiver, name='harness-pipe-server-receiver', daemon=True)
    th.start()
    for i, o in enumerate(sc['to_client']):
        x = pipe_obj(o, i, 'C')
        if sc['use_bytes_api'] and isinstance(x, bytes):
            srv.send_bytes(x)
        else:
            srv.send(x)
    th.join(200)
    if th.is_alive():
        sim.violation('pipe:server-did-not-receive-everything', {'received': len(got), 'expected': len(sc['to_server'])})
        return {}
    srv.send('HARNESS-DONE')
    try:
        client_got = p.result(timeout=200)
    except Exception as e:
        sim.violation('pipe:client-failed', {'exc': repr(e)[:300]})
        return {}
    want_c = [pipe_obj(o, i, 'C') for i, o in enumerate(sc['to_client'])]
    want_s = [pipe_obj(o, i, 'S') for i, o in enumerate(sc['to_server'])]
    for name, g, w in (('to-client', client_got, want_c), ('to-server', got, want_s)):
        if len(g) != len(w) or any(not _same(a, b) for a, b in zip(g, w)):
            order = sorted(map(repr, g)) == sorted(map(repr, w))
            sim.violation('pipe:%s:%s' % (name, 'objects-out-of-order' if order else 'objects-not-intact'),
                          {'got': [repr(x)[:40] for x in g], 'want': [repr(x)[:40] for x in w]})
    return {'n': len(got) + len(client_got)}


LAT = {}


def run(sim, sc):
    if sc.get('transport') == 'pipe':
        return run_pipe(sim, sc)
    from mpservice.socket import SocketApplication, SocketServer, SocketClient
    from sim import aio
    aio.install_net()
    aio.LISTENERS.clear()
    aio.NetCfg.frag = sc['frag']
    from sim import osproc
    d = '/tmp/verif-sock-%d' % osproc._real_getpid()  # the real pid: os.getpid() answers with the simulated pid inside a run
    os.makedirs(d, exist_ok=True)
    path = d + '/s'
    try:
        os.unlink(path)  # left behind by an earlier (aborted) run of a process with the same recycled pid
    except OSError:
        pass
    lat_of = {}
    for th in sc['threads']:
        for op in th['ops']:
            if op['op'] == 'request':
                lat_of[op['p']['seq']] = op['lat']
            else:
                for k, p in enumerate(op['ps']):
                    lat_of[p['seq']] = op['lats'][k % len(op['lats'])]

    def seq_of(x):
        # recover the request seq from the payload to look up its latency (payloads without a tag use 0)
        try:
            if isinstance(x, bytes) and x.startswith(b'#'):
                return int(x[1:x.index(b'#', 1)])
            if isinstance(x, str) and x.startswith('#'):
                return int(x[1:x.index('#', 1)])
            if isinstance(x, dict):
                return x['seq']
            if isinstance(x, int) and not isinstance(x, bool):
                return x
        except Exception:
            pass
        return 0

    handled = []

    async def echo(x):
        handled.append(('echo', seq_of(x)))
        lt = lat_of.get(seq_of(x), 0)
        if lt:
            await asyncio.sleep(lt)
        return ('echo', x)

    async def raiser(x):
        lt = lat_of.get(seq_of(x), 0)
        if lt:
            await asyncio.sleep(lt)
        raise raise_class(seq_of(x))('route-raise', seq_of(x))

    async def flaky(x):
        # echo, except that every third request (by its own sequence number) fails
        handled.append(('flaky', seq_of(x)))
        lt = lat_of.get(seq_of(x), 0)
        if lt:
            await asyncio.sleep(lt)
        if seq_of(x) % 3 == 0:
            raise raise_class(seq_of(x) // 3)('route-raise', seq_of(x))
        return ('echo', x)

    async def noarg():
        return 'noarg-result'

    app = SocketApplication()
    app.add_route('/echo', echo)
    app.add_route('/raise', raiser)
    app.add_route('/flaky', flaky)
    app.add_route('/noarg', noarg)
    server = SocketServer(app, path=path)
    server_exc = []

    def serve():
        try:
            asyncio.run(server.serve())
        except BaseException as e:
            server_exc.append(e)

    sth = threading.Thread(target=serve, name='harness-socket-server', daemon=True)
    sth.start()
    results = []  # (seq, route, payload, kind, value)

    def requester(ti, ops, client):
        for op in ops:
            if op['op'] == 'request':
                x = mk_payload(op['p'])
                if op.get('give_up_after'):
                    try:
                        y = client.request('/echo', x, response_timeout=op['give_up_after'])
                        results.append((op['p']['seq'], op['route'], x, 'value', y))  # it may still make it in time: then it must be right
                    except Exception:
                        sim.count('request_abandoned_by_caller')
                    y = None
                    sim.gc_point(0.5)
                    continue
                try:
                    if op['route'] == '/noarg':
                        y = client.request('/noarg', response_timeout=20)
                    else:
                        y = client.request(op['route'], x, response_timeout=20)
                    results.append((op['p']['seq'], op['route'], x, 'value', y))
                except Exception as e:
                    results.append((op['p']['seq'], op['route'], x, 'error', e))
            else:
                xs = [mk_payload(p) for p in op['ps']]
                got = []
                gaps = op.get('src_gaps') or [0]

                def slow_iter(xs=xs, gaps=gaps):
                    for j, x in enumerate(xs):
                        g = gaps[j % len(gaps)]
                        if g:
                            time.sleep(g)
                        yield x
                    g = gaps[len(xs) % len(gaps)]
                    if g:
                        time.sleep(g)

                try:
                    for z in client.stream(op.get('route', '/echo'), slow_iter(), return_x=op['return_x'], return_exceptions=True, response_timeout=20):
                        got.append(z)
                except Exception as e:
                    got.append(('STREAM-RAISED', e))
                sroute = 'stream-flaky' if op.get('route') == '/flaky' else 'stream'
                for k, p in enumerate(op['ps']):
                    if k >= len(got):
                        results.append((p['seq'], 'stream', xs[k], 'missing', None))
                        continue
                    z = got[k]
                    if op['return_x']:
                        if not (isinstance(z, tuple) and len(z) == 2 and _same(z[0], xs[k])):
                            results.append((p['seq'], 'stream', xs[k], 'bad-pairing', repr(z)[:200]))
                            continue
                        z = z[1]
                    results.append((p['seq'], sroute, xs[k], 'error' if isinstance(z, BaseException) else 'value', z))
                if len(got) > len(xs):
                    results.append((-1, 'stream', None, 'extra', repr(got[len(xs):])[:200]))

    try:
        with SocketClient(path=path, num_connections=sc['nconn'], connection_timeout=50) as client:
            ths = [threading.Thread(target=requester, args=(ti, t['ops'], client), name=f'harness-requester-{ti}', daemon=True)
                   for ti, t in enumerate(sc['threads'])]
            for th in ths:
                th.start()
            for th in ths:
                th.join()
            # as in the library's own example: no response is awaited for the shutdown control message (the server may stop
            # responding on a connection the moment it sees the shutdown flag; that message is not a routed request)
            client.request('/shutdown', response_timeout=0)
    except Exception as e:
        import traceback as _tb
        sim.violation('client:raised', {'exc': repr(e)[:300], 'where': [ (f.filename.rsplit('/', 1)[-1], f.lineno, f.name) for f in _tb.extract_tb(e.__traceback__)][-6:]})
    sth.join(120)
    if sth.is_alive():
        # Not judged: C18 speaks of delivery, not of shutting the server down. (Seen once in 150 000 thorough runs: the client, which
        # does not wait for an answer to the shutdown message, closes its connection while the server is still writing that answer;
        # the connection handler dies on the reset and never decrements the server's connection count, so serve() polls forever.)
        sim.count('server_still_running_after_shutdown_request')
    if server_exc:
        sim.violation('server:serve-raised', {'exc': repr(server_exc[0])[:300]})
    try:
        os.rmdir(d)
    except OSError:
        pass
    # ---------------- oracle
    for seq, route, x, kind, y in results:
        if kind in ('missing', 'bad-pairing', 'extra'):
            sim.violation('stream:' + kind, {'seq': seq, 'detail': y})
        elif route == '/raise' or (route == 'stream-flaky' and seq_of(x) % 3 == 0):
            want_cls = raise_class(seq_of(x) if route == '/raise' else seq_of(x) // 3)
            if kind != 'error' or type(y) is not want_cls or tuple(y.args) != ('route-raise', seq_of(x)):
                sim.violation('raise:wrong-outcome', {'seq': seq, 'got': repr(y)[:200], 'want': want_cls.__name__})
        elif route in ('/echo', 'stream', 'stream-flaky'):
            if kind != 'value':
                sim.violation('echo:request-failed', {'seq': seq, 'exc': repr(y)[:300]})
            elif not (isinstance(y, tuple) and len(y) == 2 and y[0] == 'echo' and _same(y[1], x)):
                other = seq_of(y[1]) if isinstance(y, tuple) and len(y) == 2 else None
                sim.violation('echo:' + ('response-of-another-request' if other not in (None, 0, seq) else 'payload-not-intact'),
                              {'seq': seq, 'got_seq': other, 'got': repr(y)[:120], 'want': repr(x)[:120]})
        elif route == '/noarg':
            if kind != 'value' or y != 'noarg-result':
                sim.violation('noarg:wrong-outcome', {'seq': seq, 'got': repr(y)[:200]})
    return {'n': len(results)}


RAISE_CLASSES = [ExcC, TimeoutError, KeyError, OSError, ValueError, ExcC]


def raise_class(seq):
    """the handler's exception class is a function of the request (any exception class is the handler's right, also ones the
    transport itself uses internally, like TimeoutError)"""
    return RAISE_CLASSES[seq % len(RAISE_CLASSES)]


def _same(a, b):
    return type(a) is type(b) and a == b
