"""C01 - parmap / fifo_stream: order-preserving, exactly-once."""
import threading
import time
from concurrent.futures import Future, ThreadPoolExecutor

from checks import streams
from checks.common import swarm, exc_choice

ID = 'C01'
LEVEL = 'exploration'
NEEDS = ('threads', 'proc')
PROC_READY = True
QUICK = dict(runs=27000, wall=85)
THOROUGH = dict(runs=500000, wall=1200)
RULE = ('scenario = n<=24 unique inputs (opaque iterator, list, tuple, range or generator; for re-iterable inputs optionally two overlapping iterations of the same stream object), per-element virtual service time in {0,1,2,5,20ms} (so every completion order is reachable), '
        'failing subset, flags return_x/return_exceptions, optional preprocessor rejecting a subset, concurrency 1..4, capacity in '
        '{1,2,3,5,n+1}; driver = fifo_stream over a thread pool, fifo_stream whose futures are completed by a separate thread in a '
        'decision-chosen order, Stream.parmap(executor=thread), Parmapper(executor=thread|process[simulated process boundary]) '
        'x seeded schedule of feeder / workers / consumer')
NONTRIVIAL_RULE = '>=2 inputs and >=2 threads runnable at the same step'
REAL = ['mpservice.streamer.fifo_stream / Stream.parmap / Parmapper', 'mpservice._queues.SingleLane',
        'mpservice.concurrent.futures.ThreadPoolExecutor / ProcessPoolExecutor', 'stdlib concurrent.futures (thread.py, process.py), '
        'multiprocessing.queues, mpservice.multiprocessing.SpawnProcess (process runs)']
STUB = ['thread scheduler', 'clock', 'process runs: OS pipes, semaphores, process spawn/exit (sim/osproc.py)']
DELAYS = [0, 0, 0.001, 0.002, 0.005, 0.02]


def gen(rng, tier):
    n = rng.choice([0, 1, 2, 3, 4, 5, 6, 8, 10, 12, 16, 24])
    mode = rng.choice(['fifo_pool', 'fifo_completer', 'fifo_completer', 'parmap_thread', 'parmap_thread', 'parmapper', 'parmap_process'])
    if mode == 'parmap_process' and not PROC_READY:
        mode = 'parmap_thread'
    if mode == 'parmap_process':
        n = min(n, 10)
    st = {'op': 'fifo' if mode.startswith('fifo') else 'parmap',
          'c': rng.choice([1, 2, 2, 3, 4]),
          'cap': rng.choice([1, 1, 2, 3, 5, n + 1]),
          'delays': [rng.choice(DELAYS) for _ in range(rng.choice([1, 3, 5, 7]))],
          'return_x': rng.random() < 0.4,
          'return_exceptions': rng.random() < 0.5}
    if mode == 'parmap_process':
        st['c'] = rng.choice([1, 2, 3])
    nfail = rng.choice([0, 0, 1, 1, 2, 3]) if n else 0
    if nfail:
        st['fail'] = {'idx': sorted(rng.sample(range(n), min(n, nfail))), 'exc': exc_choice(rng, ['ExcA', 'ExcB', 'ExcC', 'KeyError'])}
    if mode in ('fifo_pool', 'fifo_completer', 'parmapper', 'parmap_process') and rng.random() < 0.4:
        st['pre'] = True
        if n and rng.random() < 0.7:
            st['pre_fail'] = {'idx': sorted(rng.sample(range(n), min(n, rng.choice([1, 1, 2])))), 'exc': exc_choice(rng, ['ExcA', 'ExcB', 'KeyError'])}
            if rng.random() < 0.3:
                st['pre_fail']['idx'] = sorted(set(st['pre_fail']['idx']) | {0})
    if n and rng.random() < 0.15:
        # None (a falsy value) is a legitimate result
        st['none'] = {'idx': sorted(rng.sample(range(n), min(n, rng.choice([1, 2, n]))))}
    if n and rng.random() < 0.12:
        # an exception OBJECT as a return value (an audit / pass-through stage): a value like any other, also without return_exceptions
        cand = [i for i in range(n) if not (st.get('fail') and i in st['fail']['idx']) and not (st.get('none') and i in st['none']['idx'])]
        if cand:
            st['ret_exc'] = {'idx': sorted(rng.sample(cand, min(len(cand), rng.choice([1, 2])))), 'exc': rng.choice(['ExcA', 'KeyError', 'ExcC'])}
    src_delays = [rng.choice([0, 0, 0, 0.001, 0.004])]
    if n and rng.random() < 0.4:
        # a source that stalls once for a "human-scale" time (virtual time is free): polling loops, watchdogs and idle timeouts
        # inside the library get their chance to fire while nothing is queued
        src_delays = [0] * n
        src_delays[rng.randrange(n)] = rng.choice([0.1, 0.1, 0.5, 1.0, 1.0, 1.0, 1.0, 2.0, 10.0, 60.0])
        if rng.random() < 0.5:
            # ... and everything else instantaneous, so that the stall starts at the very instant the rest of the pipeline goes idle:
            # the library's own timed waits then expire at the same virtual instant as the stall ends (timers tie)
            st['delays'] = [0]
    src_kind = 'iter'
    if not any(src_delays) and rng.random() < 0.3:
        # "any input sequence": sized containers and plain generators take other code paths than an opaque iterator
        src_kind = rng.choice(['list', 'tuple', 'range', 'gen'])
    overlap = None
    if src_kind in ('list', 'tuple', 'range') and mode in ('parmap_thread', 'parmapper') and rng.random() < 0.5:
        overlap = rng.randrange(0, n + 1)
    sc = {'n': n, 'mode': mode, 'stages': [st], 'src_delays': src_delays, 'src_kind': src_kind, 'overlap': overlap,
          'consumer_delay': rng.choice([0, 0, 0, 0.002, 0.03]) if any(st['delays']) or len(src_delays) == 1 else 0}
    cfg = swarm(rng, racy=0.15, line=0.2, max_time=200.0)
    if mode == 'parmap_process':
        cfg['pipe_cap'] = rng.choice([4096, 65536])
        cfg['line_p'] = 0
        cfg['max_steps'] = 1_500_000
    return {'scenario': sc, 'sim': cfg}


def shrink(sc):
    st = sc['stages'][0]
    if sc['n'] > 0:
        n = sc['n'] - 1
        st2 = dict(st)
        for key in ('fail', 'pre_fail', 'none', 'ret_exc'):
            if st2.get(key):
                st2[key] = dict(st2[key], idx=[i for i in st2[key]['idx'] if i < n])
        yield dict(sc, n=n, stages=[st2])
    if any(st['delays']):
        yield dict(sc, stages=[dict(st, delays=[0])])
    if sc.get('overlap') is not None:
        yield dict(sc, overlap=None)
    if sc.get('src_kind', 'iter') != 'iter':
        yield dict(sc, src_kind='iter', overlap=None)
    for key in ('return_x', 'return_exceptions', 'pre', 'none', 'ret_exc'):
        if st.get(key):
            st2 = dict(st)
            st2[key] = False
            if key == 'pre':
                st2.pop('pre_fail', None)
            yield dict(sc, stages=[st2])
    if sc['consumer_delay']:
        yield dict(sc, consumer_delay=0)
    if st['c'] > 1:
        yield dict(sc, stages=[dict(st, c=st['c'] - 1)])


def tags(sim, sc, obs):
    return ['mode:' + sc['mode'], 'c:%d' % sc['stages'][0]['c']] + (['completion-order-differs-from-input-order'] if obs.get('reordered') else [])


def nontrivial(sim, sc, obs):
    return sc['n'] >= 2 and sim.max_runnable >= 2


# worker function for the process executor: must be picklable and keep no module state
def proc_fn(x, delays=None, fail=None, none=None, ret_exc=None, **kw):
    if delays:
        d = delays[streams.idx_of(x) % len(delays)]
        if d:
            time.sleep(d)
    if fail and streams.idx_of(x) in fail['idx']:
        streams._raise(fail['exc'], x)
    if none and streams.idx_of(x) in none['idx']:
        return None
    if ret_exc and streams.idx_of(x) in ret_exc['idx']:
        from checks.common import make_exc
        return make_exc(ret_exc['exc'], x)
    return x + streams.PAR_ADD


def run(sim, sc):
    from mpservice.streamer import Stream, fifo_stream, Parmapper
    st = sc['stages'][0]
    n = sc['n']
    mode = sc['mode']
    source = streams.Source(sim, n, sc['src_delays'])
    kind = sc.get('src_kind', 'iter')
    if kind != 'iter':
        source.pulled = 0  # not observable for a plain container
        source = {'list': list, 'tuple': tuple, 'range': lambda _: range(n), 'gen': lambda _: (i for i in range(n))}[kind](range(n))

        class _P:  # keeps the 'pulled' clause below meaningful only for the instrumented iterator
            pulled = 0
        pulled_view = _P
    else:
        pulled_view = source
    fn = streams.StageFn(sim, streams.PAR_ADD, st['delays'], st.get('fail'), name='work', none=st.get('none'), ret_exc=st.get('ret_exc'))
    flags = dict(return_x=bool(st.get('return_x')), return_exceptions=bool(st.get('return_exceptions')))
    pre = streams.preproc_fn(st.get('pre_fail')) if st.get('pre') else None
    done_order = []
    cleanup = []
    stop_completer = threading.Event()
    if mode == 'fifo_pool':
        pool = ThreadPoolExecutor(st['c'], thread_name_prefix='harness-pool')
        cleanup.append(pool)

        def work(x):
            return pool.submit(fn, x)

        it = fifo_stream(source, work, capacity=st['cap'], preprocessor=pre, **flags)
    elif mode == 'fifo_completer':
        pending = []

        def work(x):
            f = Future()
            fn.calls.append(x)
            pending.append((x, f))
            return f

        def completer():
            while not stop_completer.is_set():
                if pending:
                    x, f = pending.pop(sim.choose(len(pending)))
                    if f.set_running_or_notify_cancel():
                        done_order.append(streams.idx_of(x))
                        if st.get('fail') and streams.idx_of(x) in st['fail']['idx']:
                            try:
                                streams._raise(st['fail']['exc'], x)
                            except Exception as e:
                                f.set_exception(e)
                        elif st.get('ret_exc') and streams.idx_of(x) in st['ret_exc']['idx']:
                            from checks.common import make_exc
                            f.set_result(make_exc(st['ret_exc']['exc'], x))
                        else:
                            f.set_result(None if (st.get('none') and streams.idx_of(x) in st['none']['idx']) else x + streams.PAR_ADD)
                else:
                    time.sleep(0.001)

        th = threading.Thread(target=completer, name='harness-completer', daemon=True)
        th.start()
        it = fifo_stream(source, work, capacity=st['cap'], preprocessor=pre, **flags)
    elif mode == 'parmap_thread':
        stream_obj = Stream(source).parmap(fn, executor='thread', concurrency=st['c'], **flags)
        it = iter(stream_obj)
    elif mode == 'parmapper':
        stream_obj = Parmapper(source, fn, executor='thread', concurrency=st['c'], preprocessor=pre, **flags)
        it = iter(stream_obj)
    elif mode == 'parmap_process':
        it = iter(Parmapper(source, proc_fn, executor='process', concurrency=st['c'], preprocessor=pre,
                            delays=st['delays'], fail=st.get('fail'), none=st.get('none'), ret_exc=st.get('ret_exc'), **flags))
    else:
        raise ValueError(mode)

    outs = []
    raised = None
    cd = sc['consumer_delay']
    overlap = sc.get('overlap') if (kind in ('list', 'tuple', 'range') and mode in ('parmap_thread', 'parmapper')) else None
    pass_b = None
    if overlap is not None:
        # two iterations of the SAME stream object over a re-iterable input, overlapping in time: the first one is opened and
        # advanced k steps, a second one runs from start to end, then the first one is finished. Each must be a complete, ordered pass.
        try:
            for _ in range(overlap):
                outs.append(streams.norm_out(next(it)))
        except StopIteration:
            pass
        except Exception as e:
            raised = streams.exc_obs(e)
            e = None
        outs_b, raised_b = [], None
        try:
            for y in stream_obj:
                outs_b.append(streams.norm_out(y))
        except Exception as e:
            raised_b = streams.exc_obs(e)
            e = None
        pass_b = (outs_b, raised_b)
        sim.count('overlapping_iterations')
    try:
        for y in (it if raised is None else ()):
            outs.append(streams.norm_out(y))
            if cd:
                time.sleep(cd)
    except Exception as e:
        raised = streams.exc_obs(e)
        e = None
    stop_completer.set()
    for p in cleanup:
        p.shutdown(wait=True)

    # ---------------- oracle
    want_out, want_exc = streams.reference(dict(sc, stages=[st]))
    if outs != want_out[:len(outs)]:
        # classify: permutation (order broken) / wrong pairing / other
        sig = 'order:outputs-not-in-input-order' if sorted(map(repr, outs)) == sorted(map(repr, want_out[:len(outs)])) else 'result:wrong-output'
        sim.violation(sig, {'got': outs, 'want': want_out})
    elif raised is None and want_exc is None and len(outs) != len(want_out):
        sim.violation('exactly-once:output-count-differs', {'got': outs, 'want': want_out})
    elif want_exc is not None:
        if raised is None:
            sim.violation('failure:not-propagated', {'want': want_exc, 'got': outs})
        elif len(outs) != len(want_out):
            sim.violation('failure:raised-before-earlier-outputs', {'got': outs, 'want': want_out, 'raised': raised})
        elif raised[0] != want_exc[0] or (raised[1] is not None and raised[1] != want_exc[1]):
            sim.violation('failure:wrong-exception', {'raised': raised, 'want': want_exc})
    elif raised is not None:
        sim.violation('failure:unexpected-exception', {'raised': raised})
    if pass_b is not None:
        ob, rb = pass_b
        wb = want_out if want_exc is None else want_out
        if ob != wb[:len(ob)] or (rb is None and want_exc is None and len(ob) != len(wb)) or (want_exc is not None and (rb is None or len(ob) != len(wb))) \
                or (want_exc is None and rb is not None):
            sim.violation('overlap:second-iteration-of-the-same-stream-differs-from-a-complete-pass', {'got': ob, 'raised': rb, 'want': wb, 'want_exc': want_exc})
    # call log: permutation of the accepted inputs (thread modes; the process function cannot log)
    if mode != 'parmap_process' and pass_b is None:
        rejected = set(st['pre_fail']['idx']) if st.get('pre_fail') else set()
        calls = [streams.idx_of(x) for x in fn.calls]
        dup = sorted(i for i in set(calls) if calls.count(i) > 1)
        if dup:
            sim.violation('exactly-once:function-called-twice-for-an-input', {'dup': dup})
        if set(calls) & rejected:
            sim.violation('preprocessor:rejected-element-reached-the-function', {'calls': sorted(set(calls) & rejected)})
        if want_exc is None:
            missing = sorted(set(range(n)) - rejected - set(calls))
            if missing:
                sim.violation('exactly-once:input-never-processed', {'missing': missing})
        else:
            first_bad = want_exc[1] if isinstance(want_exc[1], int) else None
            if first_bad is not None:
                missing = sorted(set(range(streams.idx_of(first_bad))) - rejected - set(calls))
                if missing:
                    sim.violation('exactly-once:input-never-processed', {'missing': missing})
    if pulled_view.pulled > n:
        sim.violation('source:pulled-more-than-exists', {})
    reordered = bool(done_order) and done_order != sorted(done_order)
    if reordered:
        sim.count('completion_order_differs')
    if fn.max_running > 1:
        sim.count('calls_overlapped')
    return {'reordered': reordered, 'outs': len(outs)}
