"""C08 - streaming has bounded look-ahead and bounded concurrency."""
import time

from checks import streams
from checks.common import swarm

ID = 'C08'
LEVEL = 'exploration'
NEEDS = ('threads', 'proc')
PROC_READY = True
QUICK = dict(runs=18000, wall=85)
THOROUGH = dict(runs=300000, wall=1200)
RULE = ('scenario = unbounded counter source -> buffer(n) | fifo_stream(capacity) | Stream.parmap(concurrency, thread|process); source / '
        'worker / consumer virtual delays from {0,1,10,100ms} plus starvation-weighted scheduling (fast source + stalled consumer and '
        'every other ratio); consumer stops after 20..60 outputs; invariant pulled-delivered <= bound evaluated at every source pull '
        'and every scheduler step; enter/exit counter in the worker function')
NONTRIVIAL_RULE = '>=2 threads runnable at the same step and the look-ahead reached at least half of the bound'
REAL = ['mpservice.streamer (Buffer, fifo_stream, Parmapper)', 'mpservice._queues.SingleLane', 'ThreadPoolExecutor / ProcessPoolExecutor']
STUB = ['thread scheduler', 'clock', 'process runs: simulated OS boundary']
D = [0, 0, 0.001, 0.01, 0.1]


def gen(rng, tier):
    kind = rng.choice(['buffer', 'buffer', 'fifo', 'fifo', 'parmap', 'parmap', 'parmap_process'])
    if kind == 'parmap_process' and not PROC_READY:
        kind = 'parmap'
    sc = {'kind': kind, 'm': rng.choice([1, 2, 3, 5, 8]), 'cap': rng.choice([1, 2, 3, 5]), 'c': rng.choice([1, 2, 3, 4]),
          'src_delays': [rng.choice(D) for _ in range(rng.choice([1, 3]))],
          'fn_delays': [rng.choice(D) for _ in range(rng.choice([1, 3, 5]))],
          'consumer_delays': [rng.choice(D + [0.5]) for _ in range(rng.choice([1, 2, 4]))],
          'take': rng.choice([20, 30, 60]), 'pre_map': rng.random() < 0.2}
    if kind == 'parmap_process':
        sc['take'] = 12
        sc['c'] = rng.choice([1, 2])
    cfg = swarm(rng, racy=0.1, line=0.15, strategies=('random', 'weighted', 'weighted', 'weighted', 'sticky', 'pct'), max_time=600.0)
    if kind == 'parmap_process':
        cfg['line_p'] = 0
        cfg['max_steps'] = 1_500_000
    return {'scenario': sc, 'sim': cfg}


def shrink(sc):
    if sc['take'] > 2:
        yield dict(sc, take=sc['take'] // 2)
    for key in ('src_delays', 'fn_delays', 'consumer_delays'):
        if any(sc[key]):
            yield dict(sc, **{key: [0]})
    if sc.get('pre_map'):
        yield dict(sc, pre_map=False)


def bound_of(sc):
    k = sc['kind']
    if k == 'buffer':
        return sc['m'] + 2
    if k == 'fifo':
        return sc['cap'] + 3
    return 2 * sc['c'] + 3


def tags(sim, sc, obs):
    return ['kind:' + sc['kind'], 'peak=bound' if obs['peak'] == obs['bound'] else 'peak<bound']


def nontrivial(sim, sc, obs):
    return sim.max_runnable >= 2 and obs['peak'] * 2 >= obs['bound']


# Invocation meter for the process executor. The simulated worker processes are threads of this interpreter (sim/osproc.py), so a
# module global is visible to all of them; only one thread runs at a time (baton), so plain increments are exact.
PROC_METER = {'running': 0, 'max': 0, 'calls': 0}


def proc_fn(x, delays=None, **kw):
    m = PROC_METER
    m['running'] += 1
    m['calls'] += 1
    if m['running'] > m['max']:
        m['max'] = m['running']
    try:
        if delays:
            d = delays[x % len(delays)]
            if d:
                time.sleep(d)
        return x + streams.PAR_ADD
    finally:
        m['running'] -= 1


def run(sim, sc):
    from mpservice.streamer import Stream, fifo_stream
    from concurrent.futures import ThreadPoolExecutor
    bound = bound_of(sc)
    source = streams.Source(sim, 0, sc['src_delays'], infinite=True)
    state = {'delivered': 0, 'peak': 0}

    def inv():
        la = source.pulled - state['delivered']
        if la > state['peak']:
            state['peak'] = la
        if la > bound:
            return ('lookahead:pulled-minus-delivered-exceeds-bound:' + sc['kind'],
                    {'pulled': source.pulled, 'delivered': state['delivered'], 'bound': bound})
        return None

    sim.invariants.append(inv)
    source.on_pull = lambda s: inv() and None
    fn = streams.StageFn(sim, streams.PAR_ADD, sc['fn_delays'], None, name='work')
    kind = sc['kind']
    s = Stream(source)
    if sc.get('pre_map'):
        s = s.map(lambda x: x)
    pool = None
    s_final = None
    if kind == 'buffer':
        s_final = s.buffer(sc['m'])
        it = iter(s_final)
        conc = None
    elif kind == 'fifo':
        pool = ThreadPoolExecutor(sc['c'], thread_name_prefix='harness-pool')
        it = fifo_stream(s, lambda x: pool.submit(fn, x), capacity=sc['cap'])
        conc = sc['c']
    elif kind == 'parmap':
        s_final = s.parmap(fn, executor='thread', concurrency=sc['c'])
        it = iter(s_final)
        conc = sc['c']
    else:
        PROC_METER.update(running=0, max=0, calls=0)
        it = iter(s.parmap(proc_fn, executor='process', concurrency=sc['c'], delays=sc['fn_delays']))
        conc = None
    got = []
    cds = sc['consumer_delays']
    for y in it:
        state['delivered'] += 1
        got.append(y)
        d = cds[len(got) % len(cds)]
        if d:
            time.sleep(d)
        if len(got) >= sc['take']:
            break
    it.close()
    if fn.running and kind in ('parmap',):
        sim.violation('concurrency:invocations-still-running-after-the-iterator-was-closed', {'running': fn.running})
    # consume the same Stream object again at once: invocations left over from the abandoned iteration must not add to the new ones
    if kind in ('parmap', 'buffer') and sc.get('again', True):
        state['delivered'] = source.pulled  # what the abandoned iteration had pulled is gone; the bound applies afresh
        it2 = iter(s_final)
        k = 0
        for y in it2:
            k += 1
            state['delivered'] += 1
            d = cds[k % len(cds)]
            if d:
                time.sleep(d)
            if k >= min(8, sc['take']):
                break
        it2.close()
        state['delivered'] = source.pulled
        sim.count('re_iterated')
    if pool is not None:
        pool.shutdown(wait=True, cancel_futures=True)
    r = inv()
    if r is not None:
        sim.violation(*r)
    add = 0 if kind == 'buffer' else streams.PAR_ADD
    if got != [i + add for i in range(len(got))]:
        sim.violation('result:wrong-output', {'got': got[:10]})
    if conc is not None and fn.max_running > conc:
        sim.violation('concurrency:more-invocations-running-than-concurrency', {'max_running': fn.max_running, 'concurrency': conc})
    if kind == 'parmap_process':
        if PROC_METER['max'] > sc['c']:
            sim.violation('concurrency:more-invocations-running-than-concurrency:process-executor',
                          {'max_running': PROC_METER['max'], 'concurrency': sc['c']})
        if PROC_METER['running']:
            sim.violation('concurrency:invocations-still-running-after-the-iterator-was-closed:process-executor', {'running': PROC_METER['running']})
        if PROC_METER['max'] == sc['c'] and sc['c'] > 1:
            sim.count('concurrency_saturated_process')
    if state['peak'] == bound:
        sim.count('peak_reached_bound')
    if conc is not None and fn.max_running == conc and conc > 1:
        sim.count('concurrency_saturated')
    return {'peak': state['peak'], 'bound': bound, 'max_running': fn.max_running}
