"""C07 - an abandoned request (timeout, dropped stream) never harms the server."""
from checks import servers
from checks.common import swarm, exc_choice
from checks.c02_server_results import check_outcomes, shrink as shrink2

ID = 'C07'
LEVEL = 'exploration'
NEEDS = ('threads', 'aio')
QUICK = dict(runs=24000, wall=85)
THOROUGH = dict(runs=400000, wall=1500)
RULE = ('scenario = Server/AsyncServer over a thread servlet tree; 2-4 concurrent callers whose deadlines are drawn at the (known, virtual) '
        'service time x {0.5..1.5} and +-1us so that expiry races the gather thread check-and-set; streams closed early with requests '
        'pending; racy clock in ~60% of runs, line pre-emption in ~40%; then a post phase: fresh calls with a huge timeout and __exit__; '
        'oracle: abandoning caller gets TimeoutError (never before its deadline), every other and every post-phase request gets its '
        'reference value, no exception escapes a server helper thread, __exit__ returns')
NONTRIVIAL_RULE = '>=2 threads runnable at the same step and at least one request was actually abandoned (timed out, cancelled or left in a closed stream)'
REAL = ['mpservice.mpserver.Server/AsyncServer (_wait_for_result, _gather_output, stream)', 'fifo_stream/async_fifo_stream finalisation', 'ThreadServlet/Worker']
STUB = ['thread scheduler', 'clock', 'asyncio selector']


def gen(rng, tier):
    tree = servers.gen_tree(rng, kinds=('leaf', 'leaf', 'leaf', 'seq', 'ens'))
    svc = max(servers.mean_service_time(tree), 0.0005)
    is_async = rng.random() < 0.4
    nxt = iter(range(1, 1000))
    callers = []
    for ci in range(rng.choice([2, 2, 3, 4])):
        ops = []
        for _ in range(rng.choice([2, 3, 4, 5])):
            r = rng.random()
            if r < 0.65:
                op = {'op': 'call', 'x': next(nxt), 'timeout': 100.0, 'bp': False}
                if rng.random() < 0.6:
                    op['timeout'] = max(1e-5, svc * rng.choice([0.5, 0.9, 1.0, 1.0, 1.0, 1.1, 1.5]) + rng.choice([0, 0, 1e-6, -1e-6, 0.001]))
                elif is_async and rng.random() < 0.3:
                    op['cancel_after'] = svc * rng.choice([0.5, 1.0, 1.0, 1.2])
                ops.append(op)
            elif r < 0.9:
                xs = [next(nxt) for _ in range(rng.choice([2, 4, 6]))]
                op = {'op': 'stream', 'xs': xs, 'timeout': 100.0, 'return_exceptions': True, 'src_delay': rng.choice([0, 0, 0.001])}
                if rng.random() < 0.7:
                    op['stop_after'] = rng.randrange(1, len(xs) + 1)
                ops.append(op)
            else:
                ops.append({'op': 'sleep', 'd': rng.choice([0.001, 0.01])})
        callers.append({'ops': ops})
    if rng.random() < 0.5:
        # the late "result" of an abandoned request may just as well be an error
        allx = [op['x'] for c in callers for op in c['ops'] if op['op'] == 'call'] + [x for c in callers for op in c['ops'] if op['op'] == 'stream' for x in op['xs']]
        if allx:
            lf = rng.choice(servers.leaves(tree))
            lf['fail'] = {'xs': sorted(rng.sample(allx, min(len(allx), rng.choice([1, 2, 4, 8])))), 'exc': exc_choice(rng, ['ExcA', 'ExcB', 'KeyError'])}
    sc = {'tree': tree, 'capacity': rng.choice([1, 1, 1, 2, 3, 4, 8]), 'async': is_async, 'callers': callers,
          'post': [next(nxt) for _ in range(rng.choice([1, 2, 3]))]}
    cfg = swarm(rng, racy=0.6, line=0.4, max_time=500.0, max_steps=600_000)
    if cfg['time_mode'] == 'racy':
        cfg['p_racy'] = rng.choice([0.05, 0.1, 0.2])
    return {'scenario': sc, 'sim': cfg}


shrink = shrink2


def tags(sim, sc, obs):
    t = ['server:' + ('async' if sc['async'] else 'sync')]
    for k in (obs.get('kinds') or {}):
        t.append('outcome:' + k)
    return t


def nontrivial(sim, sc, obs):
    k = obs.get('kinds') or {}
    return sim.max_runnable >= 2 and (k.get('timeout', 0) + k.get('abandoned', 0) + k.get('cancelled', 0)) > 0


def run(sim, sc):
    holder = {}

    def on_entered(server):
        holder['server'] = server

    out = servers.run_scenario(sim, sc, on_entered=on_entered)
    if out.enter_exc is not None:
        sim.violation('server:enter-failed', {'exc': repr(out.enter_exc)})
        return {}
    kinds = check_outcomes(sim, sc, out)
    for r in out.post:
        if r.kind != 'value':
            sim.violation('post-phase:request-after-abandonment-not-answered', {'request': r.brief()})
    if out.backlog_end:
        sim.violation('ledger:not-empty-when-idle', {'backlog': out.backlog_end})
    if not out.exit_ok:
        sim.violation('server:exit-did-not-complete', {})
    if kinds.get('timeout'):
        sim.count('timed_out', kinds['timeout'])
    if kinds.get('abandoned'):
        sim.count('abandoned_in_stream', kinds['abandoned'])
    return {'kinds': kinds}
