"""C04 - a failing request fails alone, with its original error."""
import traceback

from checks import servers
from checks.common import swarm, exc_choice
from checks.c02_server_results import check_outcomes, shrink as shrink2

ID = 'C04'
LEVEL = 'exploration'
NEEDS = ('threads', 'aio', 'proc')
PROC_READY = True
QUICK = dict(runs=12000, wall=85)
THOROUGH = dict(runs=300000, wall=1500)
RULE = ('scenario = servlet tree (leaves with/without batching, Sequential, Ensemble fail_fast on/off, Switch), Server or AsyncServer, '
        '1-4 concurrent callers (call + stream(return_exceptions)); fault plan = failing request subset x site in {Worker.call, '
        'Worker.preprocess, stage index, ensemble member subset} x exception class (custom classes with args); oracle: exactly the '
        'planned requests (for batched call failures: exactly the members of the batch that call really received, from the call log) '
        'fail; type, args and traceback text of the failure site; EnsembleError exactly under the documented rules with member slots in '
        'member order; everyone else gets the reference value')
NONTRIVIAL_RULE = '>=2 threads runnable at the same step and at least one request failed while at least one other succeeded'
REAL = ['mpservice.mpserver (Worker._start_single/_start_batch/_build_input_batches, servlets, Server/AsyncServer gather)',
        'mpservice.multiprocessing.remote_exception']
STUB = ['thread scheduler', 'clock', 'asyncio selector']


def gen(rng, tier):
    tree = servers.gen_tree(rng, proc_ok=PROC_READY and rng.random() < 0.15)
    lvs = servers.leaves(tree)
    nxt = iter(range(rng.choice([0, 1]), 1000))  # request value 0 (falsy) included in half of the runs
    callers = []
    allx = []
    for ci in range(rng.choice([1, 2, 2, 3, 4])):
        ops = []
        for _ in range(rng.choice([1, 2, 3, 4])):
            r = rng.random()
            if r < 0.5:
                x = next(nxt)
                allx.append(x)
                ops.append({'op': 'call', 'x': x, 'timeout': 100.0, 'bp': False})
            elif r < 0.95:
                xs = [next(nxt) for _ in range(rng.choice([2, 4, 6, 9]))]
                allx.extend(xs)
                ops.append({'op': 'stream', 'xs': xs, 'timeout': 100.0, 'return_exceptions': rng.random() < 0.85, 'src_delay': rng.choice([0, 0, 0.001])})
            else:
                ops.append({'op': 'sleep', 'd': rng.choice([0.001, 0.01])})
        callers.append({'ops': ops})
    if not allx:
        allx = [next(nxt)]
        callers[0]['ops'].append({'op': 'call', 'x': allx[0], 'timeout': 100.0, 'bp': False})
    nfail_leaves = rng.choice([1, 1, 2, 3])
    for lf in rng.sample(lvs, min(len(lvs), nfail_leaves)):
        key = 'pre_fail' if rng.random() < 0.3 else 'fail'
        k = rng.choice([1, 1, 2, 3, max(1, len(allx) // 2), len(allx)])
        lf[key] = {'xs': sorted(rng.sample(allx, min(len(allx), k))), 'exc': exc_choice(rng, ['ExcA', 'ExcB', 'ExcC', 'KeyError', 'ZeroDivisionError'])}
    sc = {'tree': tree, 'capacity': rng.choice([1, 2, 4, 8]), 'async': rng.random() < 0.35, 'callers': callers, 'post': [next(nxt)]}
    cfg = swarm(rng, racy=0.15, line=0.3, max_time=400.0, max_steps=600_000)
    return {'scenario': sc, 'sim': cfg}


shrink = shrink2


def tags(sim, sc, obs):
    t = ['server:' + ('async' if sc['async'] else 'sync'), 'tree:' + sc['tree']['t']]
    for lf in servers.leaves(sc['tree']):
        if lf.get('fail'):
            t.append('site:call' + (':batched' if (lf.get('b') or 0) > 1 else ''))
        if lf.get('pre_fail'):
            t.append('site:preprocess')
    for k in (obs.get('kinds') or {}):
        t.append('outcome:' + k)
    if obs.get('ens_err'):
        t.append('EnsembleError')
    return t


def nontrivial(sim, sc, obs):
    k = obs.get('kinds') or {}
    return sim.max_runnable >= 2 and k.get('error', 0) > 0 and k.get('value', 0) > 0


def _tb_text(e):
    from mpservice.multiprocessing.remote_exception import is_remote_exception, get_remote_traceback
    txt = ''
    if is_remote_exception(e):
        txt += get_remote_traceback(e)
    try:
        txt += ''.join(traceback.format_exception(type(e), e, e.__traceback__))
    except Exception:
        pass
    c = e.__cause__
    if c is not None:
        txt += str(c)
    return txt


def _check_error_detail(sim, sc, r, e, batches):
    """type/args/traceback of a plain (non-ensemble) failure delivered to request r"""
    site = servers.exc_site(e)
    b = servers.exc_batch(e)
    if site is None or b is None:
        sim.violation('error:args-not-preserved', {'request': r.brief(), 'args': repr(e.args)[:200]})
        return
    if r.x not in b:
        sim.violation('error:delivered-to-a-request-that-was-not-in-the-failing-call', {'request': r.brief(), 'failing_call_had': b})
    txt = _tb_text(e)
    fn = 'in preprocess' if site.endswith('.pre') else 'in call'
    if fn not in txt or 'servers.py' not in txt:
        sim.violation('error:traceback-of-failure-site-lost', {'request': r.brief(), 'text': txt[-400:]})


def run(sim, sc):
    from mpservice.multiprocessing.remote_exception import EnsembleError, RemoteException
    out = servers.run_scenario(sim, sc)
    if out.enter_exc is not None:
        sim.violation('server:enter-failed', {'exc': repr(out.enter_exc)})
        return {}
    kinds = check_outcomes(sim, sc, out)
    ens_err = 0
    for r in out.recs:
        if r.kind == 'error':
            e = r.value
            if isinstance(e, EnsembleError):
                ens_err += 1
                for slot in e.args[1]['y']:
                    ee = slot.exc if isinstance(slot, RemoteException) else slot
                    if isinstance(ee, BaseException):
                        _check_error_detail(sim, sc, r, ee, None)
            else:
                _check_error_detail(sim, sc, r, e, None)
        elif r.kind == 'value' and isinstance(r.value, list):
            for slot in r.value:
                ee = slot.exc if isinstance(slot, RemoteException) else slot
                if isinstance(ee, BaseException):
                    _check_error_detail(sim, sc, r, ee, None)
    # a batched failing call fails all of its members and nobody else: every member of a logged failing batch must have failed
    eff = servers.effective_tree(sc['tree'])
    by_x = {r.x: r for r in out.recs}
    for lf0, lf in zip(servers.leaves(sc['tree']), servers.leaves(eff)):
        if lf.get('fail') and (lf.get('b') or 0) > 1:
            extra = set(lf['fail']['xs']) - set(lf0['fail']['xs'])
            if extra:
                sim.count('batchmates_failed', len(extra))
    if out.backlog_end:
        sim.violation('ledger:not-empty-when-idle', {'backlog': out.backlog_end})
    if ens_err:
        sim.count('ensemble_errors', ens_err)
    return {'kinds': kinds, 'ens_err': ens_err}
