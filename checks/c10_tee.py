"""C10 - tee forks see identical streams and cannot wedge each other."""
import threading
import time

from checks import streams
from checks.common import swarm, exc_choice

ID = 'C10'
LEVEL = 'exploration'
NEEDS = ('threads',)
QUICK = dict(runs=30000, wall=85)
THOROUGH = dict(runs=600000, wall=1500)
RULE = ('scenario = tee(source, n_forks in {2,3}, buffer_size in {2,3,5}); source length in {0,1,2,window,window+3,..}, elements ints or (40%) unusual legal values (None, False, '', (), 0, exception objects/classes as data), optional source '
        'failure at position j; each fork consumed in its own thread with generated virtual delays; line pre-emption inside _tee.py in '
        '~70% of runs, starvation weights so that one fork lags; oracle: every fork list == source prefix, all forks end the way the '
        'source ended, source pulled once per element and never more than buffer_size+2 beyond the slowest fork, no deadlock/no-progress')
NONTRIVIAL_RULE = '>=2 fork threads runnable at the same step and >=2 source elements'
REAL = ['mpservice.streamer.tee / Fork / TeeX', 'queue.Queue', 'threading.Lock (timed acquire)']
STUB = ['thread scheduler', 'clock']


def gen(rng, tier):
    bs = rng.choice([2, 2, 3, 5])
    nf = rng.choice([2, 2, 3])
    n = rng.choice([0, 1, 2, bs, bs + 1, bs + 3, 2 * bs + 1, 12])
    sc = {'n': n, 'n_forks': nf, 'buffer_size': bs,
          'fork_delays': [[rng.choice([0, 0, 0, 0.001, 0.01, 0.05]) for _ in range(rng.choice([1, 2, 3]))] for _ in range(nf)],
          'src_delays': [rng.choice([0, 0, 0.001, 0.01])], 'start_delays': [rng.choice([0, 0, 0.001, 0.02]) for _ in range(nf)]}
    if n and rng.random() < 0.4:
        # elements that are unusual but legal values: None, falsy values, exception objects and classes as DATA
        sc['odd'] = {str(rng.randrange(n)): rng.choice(streams.ODD_KINDS) for _ in range(rng.choice([1, 1, 2, 3]))}
    if rng.random() < 0.35:
        sc['src_fail'] = {'pos': rng.randrange(0, n + 1), 'exc': exc_choice(rng, ['ExcA', 'ExcB', 'KeyError'])}
    cfg = swarm(rng, racy=0.15, line=0.7, strategies=('random', 'weighted', 'weighted', 'weighted', 'pct', 'sticky'), max_time=300.0)
    if cfg.get('line_p'):
        cfg['line_p'] = rng.choice([0.05, 0.15, 0.3])
    return {'scenario': sc, 'sim': cfg}


def shrink(sc):
    if sc['n'] > 0:
        sc2 = dict(sc, n=sc['n'] - 1)
        if sc2.get('src_fail'):
            sc2['src_fail'] = dict(sc2['src_fail'], pos=min(sc2['src_fail']['pos'], sc2['n']))
        yield sc2
    if sc['n_forks'] > 2:
        yield dict(sc, n_forks=2, fork_delays=sc['fork_delays'][:2], start_delays=sc['start_delays'][:2])
    if any(any(d) for d in sc['fork_delays']):
        yield dict(sc, fork_delays=[[0] for _ in sc['fork_delays']])
    if any(sc['start_delays']):
        yield dict(sc, start_delays=[0] * len(sc['start_delays']))
    if any(sc['src_delays']):
        yield dict(sc, src_delays=[0])
    if sc['buffer_size'] > 2:
        yield dict(sc, buffer_size=sc['buffer_size'] - 1)
    if sc.get('odd'):
        for k in sc['odd']:
            yield dict(sc, odd={a: b for a, b in sc['odd'].items() if a != k})


def tags(sim, sc, obs):
    return ['forks:%d' % sc['n_forks'], 'window:%d' % sc['buffer_size'], 'source:' + ('fails' if sc.get('src_fail') else 'exhausts'),
            ] + sorted(set('element:' + k for k in (sc.get('odd') or {}).values())) + [
            'peak-lead=%s' % ('bound' if obs.get('peak') == sc['buffer_size'] + 2 else 'below')]


def nontrivial(sim, sc, obs):
    return sim.max_runnable >= 2 and sc['n'] >= 2


def run(sim, sc):
    from mpservice.streamer import tee
    n, nf, bs = sc['n'], sc['n_forks'], sc['buffer_size']
    source = streams.Source(sim, n, sc['src_delays'], sc.get('src_fail'), odd=sc.get('odd'))
    progress = [0] * nf
    state = {'peak': 0}
    bound = bs + 2

    def inv():
        lead = source.pulled - min(progress)
        if lead > state['peak']:
            state['peak'] = lead
        if lead > bound:
            return ('lookahead:source-pulled-more-than-buffer_size+2-beyond-slowest-fork', {'pulled': source.pulled, 'progress': list(progress), 'bound': bound})
        return None

    sim.invariants.append(inv)
    forks = tee(source, nf, buffer_size=bs)
    if source.entered:
        sim.violation('laziness:tee-pulled-from-the-source-at-construction', {})
    results = [None] * nf

    def consume(i):
        out = []
        ending = 'exhausted'
        if sc['start_delays'][i]:
            time.sleep(sc['start_delays'][i])
        ds = sc['fork_delays'][i]
        try:
            for x in forks[i]:
                out.append(x)
                progress[i] += 1
                d = ds[len(out) % len(ds)]
                if d:
                    time.sleep(d)
        except Exception as e:
            ending = streams.exc_obs(e)
        results[i] = (out, ending)

    ths = [threading.Thread(target=consume, args=(i,), name=f'harness-fork-{i}', daemon=True) for i in range(nf)]
    for th in ths:
        th.start()
    for th in ths:
        th.join()
    r = inv()
    if r:
        sim.violation(*r)
    f = sc.get('src_fail')
    want = [streams.odd_value((sc.get('odd') or {}).get(str(i)), i) for i in range(n if f is None else min(n, f['pos']))]
    want_end = 'exhausted' if f is None else [f['exc'], f['pos']]
    for i, (out, ending) in enumerate(results):
        if out != want:
            sig = 'fork:elements-differ-from-source'
            if not sc.get('odd') and sorted(out) == want:
                sig = 'fork:elements-out-of-order'
            elif out == want[:len(out)]:
                sig = 'fork:elements-missing-at-the-end'
            sim.violation(sig, {'fork': i, 'got': repr(out), 'want': repr(want), 'ending': ending})
        if ending != want_end:
            sim.violation('fork:ended-differently-from-the-source:%s-instead-of-%s' % (
                'exhausted' if ending == 'exhausted' else 'exception', 'exhausted' if want_end == 'exhausted' else 'exception'),
                {'fork': i, 'ending': ending, 'want': want_end})
    expected_pulls = n if f is None else min(n, f['pos'])
    if source.pulled != expected_pulls:
        sim.violation('source:not-pulled-exactly-once-per-element', {'pulled': source.pulled, 'elements': expected_pulls})
    if f is None and source.entered > n + 1 + nf:
        pass
    return {'peak': state['peak']}
