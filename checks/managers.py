"""Shared harness for the manager properties (C13, C14): a ServerProcess hosted in a simulated process,
client "agent" processes driven over simulated pipes, and helpers to observe server-side reference counts."""
import gc
import pickle
import threading
import time


class Boom(Exception):
    def __init__(self, a, b=1):
        super().__init__(a, b)
        self.a = a
        self.b = b


class Maker:
    """custom hosted class: methods returning managed() values, raising methods, plain state"""

    def __init__(self):
        self.made = []
        self.n = 0

    def make_list(self, items):
        from mpservice.multiprocessing.server_process import managed_list
        x = list(items)
        self.made.append(len(x))  # keep no reference to the managed value (it could form a cycle through a stored proxy of self)
        return managed_list(x)

    def make_nested(self, items):
        from mpservice.multiprocessing.server_process import managed_list, managed_dict
        x = list(items)
        d = {'k': len(x)}
        self.made.append(len(x))
        return {'plain': list(items), 'lst': managed_list(x), 'dct': managed_dict(d)}

    def shared_list(self):
        # the SAME server-side object wrapped again on every call (several proxies, created independently, for one hosted value)
        from mpservice.multiprocessing.server_process import managed_list
        if not hasattr(self, '_shared'):
            self._shared = []
        return managed_list(self._shared)

    def make_mem(self, size):
        from mpservice.multiprocessing.server_process import managed_memoryblock, MemoryBlock
        return managed_memoryblock(MemoryBlock(size))

    def peek_made(self, i):
        return self.made[i]

    def bump(self, k=1):
        self.n += k
        return self.n

    def boom(self, x):
        raise Boom('boom', x)

    def type_error(self, x):
        return len(x)

    def unserializable(self, x):
        # a reply that cannot be pickled (each kind is rejected by pickle with a different exception class)
        import threading
        if x % 3 == 0:
            return (i for i in range(3))          # TypeError: cannot pickle 'generator' object
        if x % 3 == 1:
            raise KeyError('dup', x, threading.Lock())   # an exception whose args cannot be pickled
        return lambda: x                          # PicklingError / AttributeError: local object

    def raise_lib(self, x):
        # exception classes that the proxy machinery itself uses for its own control flow
        import queue
        raise [TimeoutError, EOFError, queue.Empty, ConnectionResetError, TimeoutError][x % 5]('from the hosted method', x)

    def noop(self):
        return None

    def use_proxy(self, p, meth, args):
        # a hosted method that is handed a proxy and uses it: inside the server process the proxy call takes the in-process path
        return getattr(p, meth)(*args)


def register():
    from mpservice.multiprocessing.server_process import ServerProcess
    if 'Maker' not in ServerProcess._registry:
        ServerProcess.register('Maker', Maker)


def _touch(p):
    """cheap harmless call through a proxy (also flushes the previous reply held by the server's handler thread)"""
    tn = type(p).__name__
    if 'Value' in tn:
        return p.get()
    if 'Namespace' in tn:
        return p._callmethod('__getattribute__', ('__class__',)) and None
    if 'MemoryBlock' in tn:
        return p._callmethod('_name')
    if 'Maker' in tn:
        return p.noop()
    return p.__len__()


def agent(conn):
    """Runs in a simulated client process. Keeps everything in locals."""
    held = {}
    blobs = {}
    c = box = th = pxy = None
    while True:
        cmd = conn.recv()
        op = cmd[0]
        r = 'ok'
        try:
            if op == 'quit':
                conn.send('bye')
                break
            elif op == 'hold':
                held[cmd[1]] = cmd[2]
            elif op == 'call':
                r = ('RET', getattr(held[cmd[1]], cmd[2])(*cmd[3]))
            elif op == 'callhold':  # call a method and keep the (proxy) result under a new name
                held[cmd[4]] = getattr(held[cmd[1]], cmd[2])(*cmd[3])
            elif op == 'item_hold':  # held[new] = held[name][key]
                held[cmd[3]] = held[cmd[1]][cmd[2]]
            elif op == 'call_with':  # held[a].meth(held[b], *args): a proxy passed as an argument to a hosted method
                r = ('RET', getattr(held[cmd[1]], cmd[2])(held[cmd[3]], *cmd[4]))
            elif op == 'inplace':  # held[name] *= arg / += arg, as the augmented assignment statement does it
                import operator
                held[cmd[1]] = (operator.imul if cmd[2] == 'imul' else operator.iadd)(held[cmd[1]], cmd[3])
                r = ('RET', type(held[cmd[1]]).__name__)
            elif op == 'drop':
                del held[cmd[1]]
            elif op == 'give':
                r = ('RET', held[cmd[1]])
            elif op == 'copy':
                held[cmd[2]] = pickle.loads(pickle.dumps(held[cmd[1]]))
            elif op == 'pickle':
                blobs[cmd[2]] = pickle.dumps(held[cmd[1]])
            elif op == 'unpickle':
                held[cmd[2]] = pickle.loads(blobs.pop(cmd[1]))
            elif op == 'store':  # held[container].append(held[name]) / [key] = ...
                c = held[cmd[1]]
                if cmd[3] is None:
                    c.append(held[cmd[2]])
                else:
                    c[cmd[3]] = held[cmd[2]]
            elif op == 'thread_call':
                box = []

                def work():
                    try:
                        box.append(('RET', getattr(held[cmd[1]], cmd[2])(*cmd[3])))
                    except Exception as e:
                        c = e.__cause__
                        box.append(('EXC', type(e).__name__, e.args, str(c) if c is not None else ''))
                th = threading.Thread(target=work, name='harness-agent-thread')
                th.start()
                th.join()
                r = box[0]
            elif op == 'gc':
                gc.collect()
            elif op == 'touch':
                # one harmless call per manager this process holds proxies of (per connection of this thread)
                seen = set()
                for pxy in list(held.values()):
                    addr = getattr(getattr(pxy, '_token', None), 'address', None)
                    if addr is not None and addr not in seen:
                        seen.add(addr)
                        _touch(pxy)
                pxy = None
            elif op == 'names':
                r = ('RET', sorted(held))
        except Exception as e:
            tb = ''
            c = e.__cause__
            if c is not None:
                tb = str(c)
            r = ('EXC', type(e).__name__, e.args, tb)
        conn.send(r)
        # nothing that may reference a proxy survives the iteration (a leftover local - the container of the last 'store' - once kept
        # a dropped proxy alive and looked like a leak in 1 of 80000 thorough runs)
        r = cmd = c = box = th = pxy = None
    held.clear()
    gc.collect()


class Agent:
    def __init__(self, idx):
        import multiprocessing.connection as mc
        from mpservice.multiprocessing import Process
        self.idx = idx
        self.conn, child = mc.Pipe()
        self.proc = Process(target=agent, args=(child,), name=f'harness-agent-{idx}')
        self.proc.start()
        child.close()
        self.alive = True

    def cmd(self, *c):
        self.conn.send(c)
        return self.conn.recv()

    def quit(self):
        if self.alive:
            self.conn.send(('quit',))
            self.conn.recv()
            self.proc.join()
            self.alive = False
            self.conn.close()


def refcounts(m, settle=0.2):
    """{ident: refcount} as reported by the server, after letting finalizers and handler threads settle"""
    gc.collect()
    time.sleep(settle)
    info = m._debug_info()
    return {d['id']: d['refcount:'] for d in info}, {d['id']: d['type'] for d in info}
