"""C19 - EagerBatcher partitions its input and waits no longer than told."""
import queue

from checks.common import swarm

ID = 'C19'
LEVEL = 'exploration'
NEEDS = ('threads',)
QUICK = dict(runs=36000, wall=85)
THOROUGH = dict(runs=600000, wall=900)
RULE = ('scenario = (batch_size 1..5, batch_wait_time in {0,10ms,1s}, instream queue.Queue (unbounded, maxsize 1 or 2) or queue.SimpleQueue, end marker None / custom object / string / falsy values (0, '', False, ()), n<=14 items with arrival gaps '
        'drawn from {0, w/2, w, 1.01w, 10w, 1ms}, optional late end marker) x seeded schedule of producer thread vs batcher; '
        'virtual clock exact or racy')
NONTRIVIAL_RULE = 'at least one item and the producer and the batcher were runnable concurrently at some step'
REAL = ['mpservice.streamer.EagerBatcher', 'queue.Queue (also bounded)', 'queue.SimpleQueue (pure-Python implementation over the simulated locks)', 'threading.Condition']
STUB = ['thread scheduler', 'clock (virtual)']
ASSUMPTIONS = ['timing equalities are evaluated only in exact-time runs without line pre-emption; ordering rules in all runs']


class MarkerEq:
    """custom end marker compared with =="""

    def __init__(self, tag):
        self.tag = tag

    def __eq__(self, other):
        return isinstance(other, MarkerEq) and other.tag == self.tag

    def __hash__(self):
        return hash(self.tag)


def mk_marker(kind):
    """the end marker: None (default), an object compared with ==, a string, or a FALSY custom value (0, '', False, ())"""
    return {'none': None, 'custom': MarkerEq('end'), 'str': 'THE-END', 'zero': 0, 'empty_str': '', 'false': False, 'empty_tuple': ()}[kind]


def gen(rng, tier):
    b = rng.choice([1, 2, 2, 3, 3, 4, 5])
    w = rng.choice([0.0, 0.01, 0.01, 1.0])
    n = rng.choice([0, 1, 1, 2, 3, 4, 5, 6, 8, 10, 14])
    base = w if w > 0 else 0.01
    gaps = []
    for _ in range(n + 1):  # last gap precedes the end marker
        gaps.append(rng.choice([0, 0, 0, base / 2, base, base * 1.01, base * 10, 0.001, base * 0.99]))
    sc = {'b': b, 'w': w, 'n': n, 'gaps': gaps, 'marker': rng.choice(['none', 'none', 'none', 'custom', 'str', 'zero', 'empty_str', 'false', 'empty_tuple']),
          'default_wait': rng.random() < 0.05, 'consumer_delay': rng.choice([0, 0, 0, 0.005, 0.5]),
          'qkind': rng.choice(['queue', 'queue', 'simple', 'bounded1', 'bounded2'])}
    if sc['marker'] != 'none' and n and rng.random() < 0.5:
        sc['none_at'] = sorted(set(rng.randrange(n) for _ in range(rng.choice([1, 1, 2]))))
    return {'scenario': sc, 'sim': swarm(rng, racy=0.25, line=0.2, max_time=400.0)}


def shrink(sc):
    n = sc['n']
    if n > 0:
        yield dict(sc, n=n - 1, gaps=sc['gaps'][:n - 1] + sc['gaps'][n:])
        yield dict(sc, n=n - 1, gaps=sc['gaps'][1:])
    for i, g in enumerate(sc['gaps']):
        if g:
            yield dict(sc, gaps=sc['gaps'][:i] + [0] + sc['gaps'][i + 1:])
    if sc['consumer_delay']:
        yield dict(sc, consumer_delay=0)
    if sc['marker'] != 'none':
        yield dict(sc, marker='none')
    if sc.get('qkind', 'queue') != 'queue':
        yield dict(sc, qkind='queue')


class RecQueue:
    """The instream handed to EagerBatcher: a thread queue of the scenario's kind (unbounded / bounded queue.Queue, queue.SimpleQueue);
    records when each get returned."""

    def __init__(self, sim, kind='queue'):
        self.q = {'queue': lambda: queue.Queue(), 'simple': lambda: queue.SimpleQueue(),
                  'bounded1': lambda: queue.Queue(1), 'bounded2': lambda: queue.Queue(2)}[kind]()
        self.sim = sim
        self.gets = []

    def put(self, z):
        self.q.put(z)

    def get(self, block=True, timeout=None):
        z = self.q.get(block, timeout)
        self.gets.append((self.sim.now, z))
        return z


def run(sim, sc):
    from mpservice.streamer import EagerBatcher
    import threading
    import time
    b, w, n = sc['b'], sc['w'], sc['n']
    end = mk_marker(sc['marker'])
    q = RecQueue(sim, sc.get('qkind', 'queue'))
    items = [('item', i) for i in range(n)]
    if end is not None:
        # with a custom end marker None is an ordinary data item
        for i in sc.get('none_at', []):
            if i < n:
                items[i] = None
    arrivals = []  # (t_before, t_after, item)
    exact = sim.time_mode == 'exact'

    def producer():
        for i in range(n + 1):
            g = sc['gaps'][i]
            if g:
                time.sleep(g)
            z = items[i] if i < n else mk_marker(sc['marker'])
            t0 = sim.now
            q.put(z)
            arrivals.append((t0, sim.now, z))

    th = threading.Thread(target=producer, name='producer', daemon=True)
    th.start()
    kw = {}
    if not sc['default_wait']:
        kw['batch_wait_time'] = w
    else:
        w = 60 if b > 1 else 0
    if end is not None:
        kw['endmarker'] = end
    batches = []  # (t_emit, batch)
    for batch in EagerBatcher(q, batch_size=b, **kw):
        batches.append((sim.now, list(batch)))
        if sc['consumer_delay']:
            time.sleep(sc['consumer_delay'])
    th.join()

    # ---------------- oracle
    flat = [x for _, bt in batches for x in bt]
    if flat != items:
        sim.violation('partition:concatenation-differs', {'got': flat, 'want': items})
        return {'batches': len(batches)}
    for _, bt in batches:
        if not (1 <= len(bt) <= b):
            sim.violation('partition:batch-size-out-of-range', {'size': len(bt), 'b': b})
            return {'batches': len(batches)}
    # single producer, FIFO queue: the k-th get is the k-th put; the (n+1)-th is the end marker
    get_t = {k: t for k, (t, z) in enumerate(q.gets[:n])}
    marker_get = [t for t, z in q.gets[n:]]
    arr_after = {k: t1 for k, (t0, t1, z) in enumerate(arrivals[:n])}
    marker_arr = [t1 for (t0, t1, z) in arrivals[n:]]
    pos = 0
    timing = exact and not sim.line_p
    eps = 1e-9
    for k, (t_emit, bt) in enumerate(batches):
        first, last = pos, pos + len(bt) - 1
        t_first = get_t[first]
        nxt = last + 1
        is_last_batch = k == len(batches) - 1
        if len(bt) < b:
            ended_by_marker = is_last_batch and marker_get and marker_get[0] <= t_emit + eps and nxt == n
            if not ended_by_marker or (marker_get and marker_get[0] > t_first + w + eps):
                # released by timeout: nothing further may have arrived (completed) before the deadline
                t_next = arr_after.get(nxt) if nxt < n else (marker_arr[0] if marker_arr else None)
                if t_next is not None and t_next < t_first + w - eps:
                    sim.violation('timing:short-batch-although-item-arrived-in-time',
                                  {'batch': k, 't_first': t_first, 'w': w, 't_next_arrival': t_next, 'size': len(bt), 'b': b})
                if timing and not sc['consumer_delay'] and abs(t_emit - (t_first + w)) > eps and not ended_by_marker:
                    sim.violation('timing:short-batch-not-emitted-at-deadline' + ('-late' if t_emit > t_first + w else '-early'),
                                  {'batch': k, 't_first': t_first, 'w': w, 't_emit': t_emit})
            elif timing and not sc['consumer_delay'] and abs(t_emit - marker_get[0]) > eps:
                sim.violation('timing:final-batch-delayed-after-marker', {'t_emit': t_emit, 't_marker': marker_get[0]})
            # a short batch must never wait past its deadline (any clock mode: emission not before being due is fine,
            # but in exact mode it is due exactly at min(marker, deadline))
            if timing and not sc['consumer_delay'] and t_emit > t_first + w + eps:
                sim.violation('timing:short-batch-waited-past-deadline', {'batch': k, 't_first': t_first, 'w': w, 't_emit': t_emit})
        else:
            if timing and not sc['consumer_delay'] and abs(t_emit - get_t[last]) > eps:
                sim.violation('timing:full-batch-delayed', {'batch': k, 't_emit': t_emit, 't_last': get_t[last]})
        pos += len(bt)
    if n and any(len(bt) < b for _, bt in batches):
        sim.count('short_batch')
    if any(len(bt) == b for _, bt in batches):
        sim.count('full_batch')
    return {'batches': len(batches), 'n': n, 'short': bool(n and any(len(bt) < b for _, bt in batches)),
            'full': any(len(bt) == b for _, bt in batches)}


def tags(sim, sc, obs):
    w = 'default' if sc['default_wait'] else sc['w']
    t = ['b:%d' % sc['b'], 'w:%s' % w, 'marker:' + sc['marker'], 'queue:' + sc.get('qkind', 'queue')]
    if sc.get('none_at'):
        t.append('None-as-data')
    if obs.get('short'):
        t.append('short-batch')
    if obs.get('full'):
        t.append('full-batch')
    return t


def nontrivial(sim, sc, obs):
    return sc['n'] >= 1 and sim.max_runnable >= 2
