"""C17 - IterableQueue delivers every item once and every consumer finishes."""
import queue
import threading
import time

from checks.common import swarm

ID = 'C17'
LEVEL = 'exploration'
NEEDS = ('threads', 'proc')
PROC_READY = True
QUICK = dict(runs=30000, wall=85)
THOROUGH = dict(runs=600000, wall=1500)
RULE = ('scenario = m in 1..3 suppliers x n in 1..3 consumers (threads on queue.Queue(maxsize in {0,1,3}) or SimpleQueue; simulated '
        'processes on multiprocessing.Queue in a share of runs), 1-3 rounds separated by renew (called by one consumer once all '
        'consumers of the round finished), unique items (round, supplier, k), wait_for_renew variants; optional to_stop set at a '
        'generated moment with parties blocked in get/put; x seeded schedule')
NONTRIVIAL_RULE = '>=2 parties runnable at the same step and >=2 items'
REAL = ['mpservice.queue.IterableQueue / ResponsiveQueue', 'queue.Queue, queue.SimpleQueue(py), multiprocessing.Queue (process runs)']
STUB = ['thread scheduler', 'clock', 'process runs: simulated OS boundary']
ASSUMPTIONS = ['StopRequested latency is evaluated in exact-time runs only']


def proc_supplier(iq, si, k, delay):
    for j in range(k):
        if delay:
            time.sleep(delay)
        iq.put((0, si, j))
    iq.put_end()
    return k


def proc_consumer(iq, delay):
    got = []
    for z in iq:
        got.append(tuple(z))
        if delay:
            time.sleep(delay)
    return got


def run_processes(sim, sc):
    """suppliers and consumers are (simulated) processes sharing an IterableQueue over a multiprocessing queue"""
    from mpservice.multiprocessing import Process, Queue
    from mpservice.queue import IterableQueue
    m, n = sc['m'], sc['n']
    q = Queue(maxsize=sc['maxsize']) if sc['maxsize'] else Queue()
    iq = IterableQueue(q, num_suppliers=m)
    cons = [Process(target=proc_consumer, args=(iq, sc['get_delays'][0]), name=f'harness-consumer-proc-{i}') for i in range(n)]
    sups = [Process(target=proc_supplier, args=(iq, i, sc['items'][0][i], sc['put_delays'][0]), name=f'harness-supplier-proc-{i}') for i in range(m)]
    for p in cons + sups:
        p.start()
    got = []
    for p in sups:
        try:
            p.result(timeout=200)
        except Exception as e:
            if sim.time_mode == 'racy' and 'put_end` is called more than' in repr(e):
                sim.count('racy_put_end_probe_timeout')  # the library's 10 ms token probe vs a slow queue feeder: timing assumption, see run()
                return {}
            sim.violation('party:supplier-process-failed', {'exc': repr(e)[:200]})
            return {}
    for p in cons:
        try:
            got.extend(p.result(timeout=200))
        except Exception as e:
            sim.violation('liveness:consumer-iteration-did-not-end:processes' if 'Timeout' in type(e).__name__ else 'party:consumer-process-failed', {'exc': repr(e)[:200]})
            return {}
    want = sorted((0, si, k) for si in range(m) for k in range(sc['items'][0][si]))
    if sorted(got) != want:
        sig = 'delivery:item-received-twice' if len(got) != len(set(got)) else 'delivery:items-lost-or-consumer-ended-early'
        sim.violation(sig + ':processes', {'got': sorted(got), 'want': want})
    return {'rounds': 1}


def gen(rng, tier):
    if PROC_READY and rng.random() < 0.12:
        m, n = rng.choice([1, 2, 3]), rng.choice([1, 2, 3])
        sc = {'mode': 'processes', 'm': m, 'n': n, 'rounds': 1, 'qkind': 'mp', 'maxsize': rng.choice([0, 1, 3]),
              'items': [[rng.choice([0, 1, 2, 5]) for _ in range(m)]], 'put_delays': [rng.choice([0, 0.001])], 'get_delays': [rng.choice([0, 0.001])],
              'wait_for_renew': False, 'to_stop': None}
        return {'scenario': sc, 'sim': swarm(rng, racy=0.1, line=0.2, max_time=600.0, max_steps=1_500_000, pipe_cap=rng.choice([4096, 65536]))}
    m = rng.choice([1, 1, 2, 2, 3])
    n = rng.choice([1, 2, 2, 3])
    rounds = rng.choice([1, 1, 2, 3])
    qkind = rng.choice(['queue0', 'queue1', 'queue3', 'simple'])
    sc = {'m': m, 'n': n, 'rounds': rounds, 'qkind': qkind,
          'items': [[rng.choice([0, 1, 2, 4, 7]) for _ in range(m)] for _ in range(rounds)],
          'put_delays': [rng.choice([0, 0, 0.001, 0.01])], 'get_delays': [rng.choice([0, 0, 0.001, 0.01])],
          'wait_for_renew': rng.random() < 0.5, 'to_stop': None}
    if not PROC_READY:
        pass  # with to_stop the helper token queues are multiprocessing queues: needs the simulated process boundary
    elif rng.random() < 0.25 and qkind != 'simple':
        sc['to_stop'] = {'at': rng.choice([0.0, 0.005, 0.05, 0.5, 1.7]), 'with_event': True}
        sc['rounds'] = 1
        sc['items'] = sc['items'][:1]
        sc['hold_end'] = rng.random() < 0.7  # suppliers do not call put_end: consumers stay blocked in get until the stop
    elif rng.random() < 0.2 and qkind != 'simple':
        sc['to_stop'] = {'at': None, 'with_event': True}  # event supplied but never set (ResponsiveQueue path)
    if sc['to_stop'] is not None and qkind in ('queue1', 'queue3') and rng.random() < 0.5:
        sc['get_delays'] = [rng.choice([1.0, 1.5, 2.5])]  # puts stay blocked on the full queue for longer than the 1 s polling interval
    if sc['to_stop'] is None and sc['rounds'] > 1 and qkind in ('simple', 'queue0') and rng.random() < 0.5:
        # between two rounds, once every consumer has finished the round and before renew(): suppliers already put the first items
        # of the next round (the documentation allows it: they become visible only after renew), and / or a late consumer iterates
        # the finished queue (it must get nothing)
        sc['early'] = [rng.choice([0, 1, 2]) for _ in range(sc['rounds'] - 1)]
        sc['late_consumer'] = [rng.random() < 0.6 for _ in range(sc['rounds'] - 1)]
        # 'during': the extra consumer starts iterating while renew() is running (single supplier only, see run())
        sc['late_mode'] = [rng.choice(['before', 'during']) for _ in range(sc['rounds'] - 1)]
    cfg = swarm(rng, racy=0.2, line=0.4, max_time=600.0)
    return {'scenario': sc, 'sim': cfg}


def shrink(sc):
    if sc.get('mode') == 'processes':
        if sc['n'] > 1:
            yield dict(sc, n=sc['n'] - 1)
        if sc['m'] > 1:
            yield dict(sc, m=sc['m'] - 1, items=[r[:-1] for r in sc['items']])
        return
    if sc.get('early') or sc.get('late_consumer'):
        yield {k: v for k, v in sc.items() if k not in ('early', 'late_consumer', 'late_mode')}
    if sc['rounds'] > 1:
        sc2 = dict(sc, rounds=sc['rounds'] - 1, items=sc['items'][:-1])
        for k in ('early', 'late_consumer', 'late_mode'):
            if sc2.get(k):
                sc2[k] = sc2[k][:-1]
        yield sc2
    if sc['n'] > 1:
        yield dict(sc, n=sc['n'] - 1)
    if sc['m'] > 1:
        yield dict(sc, m=sc['m'] - 1, items=[r[:-1] for r in sc['items']])
    for ri, r in enumerate(sc['items']):
        for si, k in enumerate(r):
            if k > 0:
                r2 = list(r)
                r2[si] = k - 1
                yield dict(sc, items=sc['items'][:ri] + [r2] + sc['items'][ri + 1:])
    for key in ('put_delays', 'get_delays'):
        if any(sc[key]):
            yield dict(sc, **{key: [0]})


def tags(sim, sc, obs):
    t = ['parties:' + ('processes' if sc.get('mode') == 'processes' else 'threads'), 'm:%d' % sc['m'], 'n:%d' % sc['n'], 'rounds:%d' % sc['rounds'], 'q:' + sc['qkind']]
    if sc.get('to_stop') and sc['to_stop']['at'] is not None:
        t.append('stop-requested')
    return t


def nontrivial(sim, sc, obs):
    return sim.max_runnable >= 2 and sum(sum(r) for r in sc['items']) >= 2


def run(sim, sc):
    if sc.get('mode') == 'processes':
        return run_processes(sim, sc)
    from mpservice.queue import IterableQueue
    from mpservice._common import StopRequested
    m, n, rounds = sc['m'], sc['n'], sc['rounds']
    qk = sc['qkind']
    if qk == 'simple':
        q = queue.SimpleQueue()
    else:
        q = queue.Queue(maxsize=int(qk[-1]))
    ts = sc.get('to_stop')
    ev = threading.Event() if ts else None
    iq = IterableQueue(q, num_suppliers=m, to_stop=ev)
    received = [[[] for _ in range(n)] for _ in range(rounds)]
    stop_seen = []  # (who, i, t, t_call_start)
    call_start = {}
    round_done = [threading.Barrier(n + 1) for _ in range(rounds)]  # consumers + renewer sync
    errors = []
    stopping = ts is not None and ts['at'] is not None

    starts = [threading.Event() for _ in range(rounds)]
    early = sc.get('early')
    late = sc.get('late_consumer') or [False] * rounds
    early_go = [threading.Event() for _ in range(rounds)]
    early_done = [0] * rounds
    early_lock = threading.Lock()

    def supplier(si):
        try:
            for r in range(rounds):
                # conservative protocol: a round's items are put only after the previous round was renewed
                # (the docstring tolerates earlier puts, the property statement does not speak of them)
                k0 = 0
                if r > 0 and early:
                    early_go[r - 1].wait()
                    k0 = min(early[r - 1], sc['items'][r][si])
                    for k in range(k0):
                        iq.put((r, si, k))
                    with early_lock:
                        early_done[r - 1] += 1
                starts[r].wait()
                for k in range(k0, sc['items'][r][si]):
                    d = sc['put_delays'][0]
                    if d:
                        time.sleep(d)
                    call_start[('supplier', si)] = sim.now
                    iq.put((r, si, k))
                if stopping and sc.get('hold_end'):
                    continue
                call_start[('supplier', si)] = sim.now
                iq.put_end(wait_for_renew=sc['wait_for_renew'] or r > 0)
        except StopRequested:
            stop_seen.append(('supplier', si, sim.now, call_start.get(('supplier', si), 0)))
        except Exception as e:
            errors.append(('supplier', si, repr(e)))

    def consumer(ci):
        try:
            for r in range(rounds):
                starts[r].wait()
                it = iter(iq)
                while True:
                    call_start[('consumer', ci)] = sim.now
                    try:
                        z = next(it)
                    except StopIteration:
                        break
                    received[r][ci].append(z)
                    d = sc['get_delays'][0]
                    if d:
                        time.sleep(d)
                round_done[r].wait()
        except StopRequested:
            stop_seen.append(('consumer', ci, sim.now, call_start.get(('consumer', ci), 0)))
        except threading.BrokenBarrierError:
            pass
        except Exception as e:
            errors.append(('consumer', ci, repr(e)))

    ths = [threading.Thread(target=supplier, args=(i,), name=f'harness-supplier-{i}', daemon=True) for i in range(m)]
    ths += [threading.Thread(target=consumer, args=(i,), name=f'harness-consumer-{i}', daemon=True) for i in range(n)]
    for th in ths:
        th.start()
    t_stop = None
    if stopping:
        starts[0].set()
        time.sleep(ts['at'])
        t_stop = sim.now
        ev.set()
        sim.count('stop_requested')
        patience = 10.0 + (sum(sc['items'][0]) + 2) * (sc['put_delays'][0] + sc['get_delays'][0])
        for th in ths:
            th.join(patience)
        alive = [th.name for th in ths if th.is_alive()]
        if alive and sc.get('hold_end'):
            sim.violation('stop:party-still-blocked-after-stop-request', {'alive': alive})
        # blocked parties must have raised within wait interval (1s default) + one poll
        if sim.time_mode == 'exact':
            for who, i, t, t_call in stop_seen:
                # a blocked call notices the stop within one wait interval (1 s) of the later of {stop request, start of the call}
                lat = t - max(t_stop, t_call)
                if lat > 1.0 + 1e-6:
                    sim.violation('stop:StopRequested-later-than-wait-interval', {'who': who, 'i': i, 'latency': lat})
        got = sorted(z for cs in received[0] for z in cs)
        if len(got) != len(set(got)):
            sim.violation('delivery:item-received-twice', {'got': got})
        return {'stop_seen': len(stop_seen)}
    during = []  # (thread, box, round it may have taken part in)
    for r in range(rounds):
        starts[r].set()
        # wait until all consumers of the round are done, check, then renew
        try:
            round_done[r].wait(timeout=200)
        except threading.BrokenBarrierError:
            if sim.time_mode == 'racy' and any('put_end` is called more than' in e[2] for e in errors):
                # put_end() probes the token queue with a 10 ms timeout; when that queue is a multiprocessing queue its feeder
                # thread can be slower than that under a racy clock. A timing assumption of the library, not an interleaving
                # of the protocol: not judged (exact-time runs do judge it).
                sim.count('racy_put_end_probe_timeout')
                return {}
            sim.violation('liveness:consumer-iteration-did-not-end', {'round': r, 'received': [len(c) for c in received[r]]})
            return {}
        for lt, box, r2 in during:
            if r2 == r:
                lt.join(50.0)
                if lt.is_alive() or len(box) != 1 or not isinstance(box[0], list):
                    sim.violation('late-consumer:started-during-renew-' + ('blocks' if lt.is_alive() else 'raises'), {'round': r, 'got': repr(box)[:200]})
                    return {}
                received[r].append(box[0])  # one more consumer of this round (or [] if it still saw the finished round)
                if box[0]:
                    sim.count('consumer_started_during_renew_got_items')
        want = sorted((r, si, k) for si in range(m) for k in range(sc['items'][r][si]))
        got = sorted(z for cs in received[r] for z in cs)
        if got != want:
            if len(got) != len(set(got)):
                sig = 'delivery:item-received-twice'
            elif any(z[0] != r for z in got):
                sig = 'delivery:item-from-another-round'
            elif set(got) < set(want):
                sig = 'delivery:items-lost-or-consumer-ended-early'
            else:
                sig = 'delivery:received-differs-from-put'
            sim.violation(sig, {'round': r, 'got': got, 'want': want})
            return {}
        if r + 1 < rounds or True:
            if r + 1 < rounds and early:
                early_go[r].set()
                t_end = sim.now + 100.0
                while early_done[r] < m and sim.now < t_end:
                    time.sleep(0.001)
                if early_done[r] < m:
                    sim.violation('early-put:put-of-next-round-items-before-renew-blocked', {'round': r, 'done': early_done[r]})
                    return {}
                sim.count('early_puts_before_renew')
            if r + 1 < rounds and late[r]:
                box = []

                def late_consumer():
                    try:
                        box.append(list(iq))
                    except Exception as e:
                        box.append(repr(e))
                lt = threading.Thread(target=late_consumer, name='harness-late-consumer', daemon=True)
                lt.start()
                # With ONE supplier the implementation tolerates a consumer that starts while renew() is running: it sees either the
                # finished round (nothing) or the next round. (With >= 2 suppliers the unchanged code has a window of its own there -
                # the half-recycled token queue looks "full" - and the documentation only promises iteration after renew: not generated.)
                if m == 1 and (sc.get('late_mode') or ['before'] * rounds)[r] == 'during':
                    during.append((lt, box, r + 1))
                    sim.count('late_consumer_started_during_renew')
                    lt = None
                else:
                    lt.join(50.0)
                if lt is not None and (lt.is_alive() or box != [[]]):
                    sim.violation('late-consumer:iterating-a-finished-round-again-' + ('blocks' if lt.is_alive() else 'yields-or-raises'),
                                  {'round': r, 'got': repr(box)[:200]})
                    return {}
                sim.count('late_consumer_on_finished_round')
            if r + 1 < rounds:
                try:
                    iq.renew()
                except Exception as e:
                    sim.violation('renew:raised', {'exc': repr(e), 'round': r})
                    return {}
                sim.count('renew')
                time.sleep(0.0)
                stray = iq.qsize() if hasattr(q, 'qsize') else 0
                # suppliers of the next round may already be putting: only markers are judged
                if iq._used_lids.qsize() != 0 or iq._applied_lids.qsize() > m:
                    sim.violation('renew:token-queues-not-reset', {'used': iq._used_lids.qsize(), 'applied': iq._applied_lids.qsize()})
    for th in ths:
        th.join(50.0)
    if any(th.is_alive() for th in ths):
        sim.violation('liveness:party-did-not-finish', {'alive': [th.name for th in ths if th.is_alive()]})
    if errors:
        sim.violation('party:unexpected-exception', {'errors': errors})
    # after the last round exactly one end marker is left in the queue
    left = []
    while True:
        try:
            left.append(q.get_nowait())
        except queue.Empty:
            break
    if any(z is not None for z in left):
        sim.violation('delivery:item-left-in-the-queue', {'left': repr(left)})
    if len(left) > 1:
        sim.count('extra_end_marker_left')  # internal state, judged only through the next round's delivery
    return {'rounds': rounds}
