"""C12 - Process and Thread objects report how their target really ended."""
import sys
import threading
import time

from checks.common import swarm, EXC_TYPES, make_exc

ID = 'C12'
LEVEL = 'exploration'
NEEDS = ('threads', 'proc')
QUICK = dict(runs=20000, wall=85)
THOROUGH = dict(runs=300000, wall=1500)
RULE = ('target ending in {return v (int / None / bytes larger than the pipe), raise E(args) (builtin and custom classes), sys.exit(code) for '
        'code in {None,0,1,3,"msg"}, return / raise with a payload that cannot be pickled} for mpservice Process (simulated process boundary) and mpservice.threading.Thread; for processes a '
        'kill (SIGKILL / SIGTERM) delivered at scheduler step s of the child, s drawn uniformly over the whole life of the child (before '
        'the target runs, during it, between the two result sends, after both) or at a named phase; accessor order generated over '
        '{join, join(timeout), result, exception, done, exitcode, wait, as_completed} from one or two parent threads; pipe capacity varied')
NONTRIVIAL_RULE = 'every run is a distinct (ending, kill point, accessor order, schedule) combination; counted distinct by event-log digest; runs with a process target or >=2 accessor threads'
REAL = ['mpservice.multiprocessing.context.SpawnProcess (__init__, start, run, _collect_result, _run_logger, join, result, exception, done)',
        'mpservice.threading.Thread', 'mpservice.multiprocessing.wait/as_completed, mpservice.threading.wait/as_completed',
        'multiprocessing.process.BaseProcess, multiprocessing.queues.Queue (log queue), Connection framing, ForkingPickler']
STUB = ['process spawn/exit/kill, pipes, semaphores (sim/osproc.py); the child bootstrap (exit-code rule of SpawnProcess._bootstrap is replicated)',
        'thread scheduler', 'clock']
ASSUMPTIONS = ['a SIGKILL that lands after the child has completely delivered result and error may legitimately be reported either as the '
               'value or as an error; accessors must still agree with each other']


def gen(rng, tier):
    kind = rng.choice(['process', 'process', 'process', 'thread'])
    ending = rng.choice(['return', 'return', 'raise', 'raise', 'exit'])
    sc = {'kind': kind, 'ending': ending, 'dur': rng.choice([0, 0, 0.01, 0.1]), 'nthreads': rng.choice([1, 1, 2])}
    if ending == 'return':
        sc['value'] = rng.choice(['int', 'none', 'big', 'big'])
        sc['size'] = rng.choice([1000, 70000, 300000])
    elif ending == 'raise':
        sc['exc'] = rng.choice(['ExcA', 'ExcB', 'ExcC', 'KeyError', 'ZeroDivisionError', 'ExcD', 'UnicodeDecodeError', 'TimeoutError', 'Empty', 'EOFError'])
    else:
        sc['code'] = rng.choice(['none', 0, 1, 3, 'msg', 'empty_str', 'zero_float', 'empty_tuple', 'false', 255])
    if kind == 'process' and ending != 'exit' and rng.random() < 0.12:
        # the value (or the exception's payload) cannot be sent to the parent: still a way for the target to end
        sc['unpicklable'] = True
    if kind == 'process' and rng.random() < 0.5:
        sc['via_kwargs'] = True  # arguments passed as a kwargs dict that the caller keeps
    if kind == 'process' and rng.random() < 0.45:
        sc['kill'] = {'sig': rng.choice([9, 9, 15]), 'mode': rng.choice(['step', 'step', 'step', 'phase', 'time'])}
        sc['kill']['step'] = rng.choice(list(range(0, 80)) + list(range(80, 240, 8)))
        sc['kill']['phase'] = rng.choice(['unpickled', 'finishing'])
        sc['kill']['time'] = rng.choice([0, 0.005, 0.05])
    acc = ['join', 'join_t', 'result', 'exception', 'done', 'exitcode', 'wait', 'as_completed', 'wait_t']
    sc['accessors'] = [[rng.choice(acc) for _ in range(rng.choice([1, 2, 3, 4]))] for _ in range(sc['nthreads'])]
    if sc['nthreads'] > 1 and rng.random() < 0.6:
        # both parent threads are already blocked in a waiting accessor when the target ends (they compete for the child's exit status)
        for a in sc['accessors']:
            a[0] = rng.choice(['join', 'result', 'result', 'exception'])
    cfg = swarm(rng, racy=0.2, line=0.15, starve=0.4 if sc['nthreads'] > 1 else 0.1, max_time=400.0, max_steps=600_000, pipe_cap=rng.choice([4096, 65536]))
    return {'scenario': sc, 'sim': cfg}


def shrink(sc):
    if sc['nthreads'] > 1:
        yield dict(sc, nthreads=1, accessors=sc['accessors'][:1])
        yield dict(sc, nthreads=1, accessors=sc['accessors'][1:])
    for i, a in enumerate(sc['accessors']):
        for j in range(len(a)):
            if len(a) > 1:
                yield dict(sc, accessors=sc['accessors'][:i] + [a[:j] + a[j + 1:]] + sc['accessors'][i + 1:])
    if sc.get('dur'):
        yield dict(sc, dur=0)
    if sc.get('value') == 'big':
        yield dict(sc, value='int')
    for key in ('via_kwargs', 'unpicklable'):
        if sc.get(key):
            yield {k: v for k, v in sc.items() if k != key}
    if sc.get('kill') and sc['kill']['mode'] == 'step' and sc['kill']['step'] > 0:
        yield dict(sc, kill=dict(sc['kill'], step=sc['kill']['step'] // 2))


def tags(sim, sc, obs):
    t = ['kind:' + sc['kind'], 'ending:' + sc['ending'] + ('-unpicklable' if sc.get('unpicklable') else '')]
    if sc.get('kill'):
        t.append('kill:sig%d:%s' % (sc['kill']['sig'], obs.get('kill_phase', 'not-delivered')))
    for a in sc['accessors']:
        t.append('first-accessor:' + a[0])
    return t


def nontrivial(sim, sc, obs):
    return sc['kind'] == 'process' or sc['nthreads'] >= 2


BIG = {}


def value_of(sc):
    v = sc.get('value')
    if v == 'int':
        return 12345
    if v == 'none':
        return None
    return bytes((i * 13) % 251 for i in range(997)) * (sc['size'] // 997 + 1)


def target(sc):
    """Runs in the child (simulated process) or thread. Keeps no module state."""
    import sim.core as core
    s = core._SIM
    me = core.cur()[1]
    s.ctx['target_started_step'] = me.steps
    if sc['dur']:
        time.sleep(sc['dur'])
    s.ctx['target_done_step'] = me.steps
    if sc['ending'] == 'return':
        if sc.get('unpicklable'):
            return lambda: 1
        return value_of(sc)
    if sc['ending'] == 'raise':
        if sc.get('unpicklable'):
            raise ValueError('payload cannot be pickled', lambda: 1)
        if sc['exc'] == 'UnicodeDecodeError':
            b'\xff'.decode()
        raise make_exc(sc['exc'], 7)
    code = sc['code']
    if code == 'none':
        sys.exit()
    if code == 'msg':
        sys.exit('fatal message')
    if code in FALSY_CODES:
        sys.exit(FALSY_CODES[code])
    sys.exit(code)


# exit codes that are falsy but are not None / integer 0: Python (and the library's documented rule) treats every non-integer code as an
# error exit with status 1; False IS the integer 0, and sys.exit(()) raises SystemExit() whose code is None (CPython normalises a tuple
# value into the constructor's arguments) - both are clean exits
FALSY_CODES = {'empty_str': '', 'zero_float': 0.0, 'empty_tuple': (), 'false': False}


def run(sim, sc):
    from mpservice.multiprocessing import Process
    from mpservice import multiprocessing as mmp
    from mpservice import threading as mth
    from mpservice._common import TimeoutError as MPTimeout
    from mpservice.multiprocessing.remote_exception import is_remote_exception, get_remote_traceback
    from sim import osproc
    sim.ctx = {}
    is_proc = sc['kind'] == 'process'
    caller_kwargs = {'sc': sc}  # stays referenced by this frame for the whole run, as a caller's job record would
    if is_proc and sc.get('via_kwargs'):
        w = Process(target=target, kwargs=caller_kwargs, name='harness-child')
    elif is_proc:
        w = Process(target=target, args=(sc,), name='harness-child')
    else:
        w = mth.Thread(target=target, args=(sc,), name='harness-target-thread')
    w.start()
    kill = sc.get('kill')
    killed = {'done': False, 'phase': None, 'after_target': None, 'step': None}
    if kill and is_proc:
        pr = w._popen.proc

        def phase_label():
            if pr.phase in ('spawned', 'unpickled'):
                return 'before-target'
            if pr.phase == 'running':
                if 'target_started_step' not in sim.ctx:
                    return 'before-target'
                return 'sending-result' if 'target_done_step' in sim.ctx else 'in-target'
            return 'exiting'

        def do_kill():
            if pr.returncode is None:
                killed['phase'] = phase_label()
                killed['after_target'] = 'target_done_step' in sim.ctx
                killed['step'] = pr.threads[0].steps
                osproc.kill_proc(pr, kill['sig'])
                killed['done'] = True
                sim.count('kill_delivered_in_phase_' + str(killed['phase']))

        step0 = sim.steps

        if kill['mode'] == 'step':
            def killer():
                if not killed['done'] and pr.returncode is None and sim.steps - step0 >= kill['step']:
                    do_kill()
                return None
            sim.invariants.append(killer)
        elif kill['mode'] == 'phase':
            pr.kill_at = ('phase', kill['phase'], kill['sig'])
        else:
            def timed():
                time.sleep(kill['time'])
                if pr.returncode is None:
                    killed['phase'] = phase_label()
                    killed['after_target'] = 'target_done_step' in sim.ctx
                if kill['sig'] == 9:
                    w.kill()
                else:
                    w.terminate()
                killed['done'] = pr.returncode is not None and pr.returncode < 0
            threading.Thread(target=timed, name='harness-killer', daemon=True).start()

    obs = []  # (thread, accessor, outcome kind, detail)
    bound = sc['dur'] + 60.0

    def accessor_thread(ti, seq):
        for a in seq:
            t0 = sim.now
            try:
                if a == 'join':
                    w.join()
                    o = ('returned', None)
                elif a == 'join_t':
                    w.join(0.001)
                    o = ('returned', 'alive' if w.is_alive() else 'finished')
                elif a == 'result':
                    o = ('value', w.result())
                elif a == 'exception':
                    o = ('exc-returned', w.exception())
                elif a == 'done':
                    o = ('flag', w.done())
                elif a == 'exitcode':
                    o = ('flag', w.exitcode if is_proc else None)
                elif a in ('wait', 'wait_t'):
                    mod = mmp if is_proc else mth
                    d, nd = mod.wait([w], timeout=None if a == 'wait' else 0.002)
                    o = ('waited', [len(d), len(nd)])
                else:
                    mod = mmp if is_proc else mth
                    o = ('completed', [x is w for x in mod.as_completed([w])])
            except MPTimeout:
                o = ('timeout', None)
            except BaseException as e:
                if isinstance(e, core_abort()):
                    raise
                o = ('raised', e)
            obs.append((ti, a, o[0], o[1], sim.now - t0))

    ths = [threading.Thread(target=accessor_thread, args=(i, seq), name=f'harness-accessor-{i}', daemon=True) for i, seq in enumerate(sc['accessors'])]
    for th in ths:
        th.start()
    for th in ths:
        th.join(bound + 100)
    stuck = [th.name for th in ths if th.is_alive()]
    if stuck:
        sim.violation('accessor:did-not-return-in-bounded-time', {'threads': stuck, 'observed_so_far': [(a, k) for (_, a, k, _, _) in obs]})
        return {'kill_phase': killed['phase']}
    # final settled observation by the driver
    try:
        w.join()
        final = ('returned', None)
    except BaseException as e:
        if isinstance(e, core_abort()):
            raise
        final = ('raised', e)

    # ---------------- expected outcome
    was_killed = bool(kill and is_proc and ((kill['mode'] != 'time' and killed['done']) or (kill['mode'] == 'time' and w.exitcode is not None and w.exitcode < 0)))
    if kill and kill['mode'] == 'phase' and is_proc and w.exitcode is not None and w.exitcode < 0:
        was_killed = True
        killed['phase'] = killed['phase'] or kill['phase']
        killed['after_target'] = kill['phase'] == 'finishing'
    ending = sc['ending']
    if sc.get('unpicklable') and is_proc:
        want = ('error', '*')  # which error is not specified; that it is an error, that all accessors say so, and in bounded time, is
    elif ending == 'return':
        want = ('value', value_of(sc))
    elif ending == 'raise':
        want = ('error', sc['exc'])
    else:
        c = sc['code']
        want = ('value', None) if c in ('none', 0, 'false', 'empty_tuple') else ('error', 'SystemExit')
    if was_killed:
        sig = kill['sig']
        if sig == 15:
            accept = [('value', None), want] if killed['after_target'] else [('value', None)]  # SIGTERM is the library's own, documented "expected" signal
        elif killed['after_target']:
            accept = [want, ('error', 'OSError')]
        else:
            accept = [('error', 'OSError')]
    else:
        accept = [want]

    def classify(kind, detail):
        if kind == 'raised':
            return ('error', type(detail).__name__)
        if kind == 'value':
            return ('value', detail)
        return None

    def acceptable(o):
        for a in accept:
            if a[0] == o[0] and (a[1] == o[1] or (a[0] == 'error' and a[1] == '*')):
                return True
        return False

    settled = classify(*final) if final[0] == 'raised' else None
    seen = []
    for ti, a, kind, detail, dt in obs:
        if dt > bound:
            sim.violation('accessor:took-longer-than-bound', {'accessor': a, 'dt': dt})
        if a in ('join', 'result'):
            if kind == 'timeout':
                sim.violation('accessor:%s-timed-out-without-timeout' % a, {})
                continue
            o = ('error', type(detail).__name__) if kind == 'raised' else (('value', detail) if a == 'result' else ('ok', None))
            if o[0] == 'ok':
                # join returned normally: the ending must be a value ending
                if not any(x[0] == 'value' for x in accept):
                    sim.violation('join:returned-normally-although-the-target-failed', {'accept': repr(accept)[:200]})
            elif not acceptable(o):
                sim.violation('%s:reported-%s-instead-of-%s' % (a, o[0], '/'.join(sorted(set(x[0] for x in accept)))),
                              {'got': repr(o)[:200], 'accept': repr(accept)[:200], 'killed': killed})
            else:
                seen.append(o if o[0] == 'error' else ('value', None))
                if kind == 'raised' and is_proc and o[1] != 'OSError' and ending == 'raise' and not sc.get('unpicklable'):
                    e = detail
                    if sc['exc'] != 'UnicodeDecodeError' and tuple(e.args) != tuple(make_exc(sc['exc'], 7).args):
                        sim.violation('error:args-not-preserved', {'got': repr(e.args), 'want': repr(make_exc(sc['exc'], 7).args)})
                    if not is_remote_exception(e) or 'in target' not in get_remote_traceback(e):
                        sim.violation('error:child-traceback-text-lost', {'exc': repr(e)})
        elif a == 'exception':
            if kind == 'exc-returned':
                o = ('value', None) if detail is None else ('error', type(detail).__name__)
            elif kind == 'raised':
                o = ('error', type(detail).__name__)
            else:
                sim.violation('accessor:exception-timed-out-without-timeout', {})
                continue
            if not any(x[0] == o[0] and (o[0] == 'value' or x[1] == o[1] or x[1] == '*') for x in accept):
                sim.violation('exception:reported-%s-instead-of-%s' % (o[0], '/'.join(sorted(set(x[0] for x in accept)))),
                              {'got': repr(o)[:200], 'accept': repr(accept)[:200], 'killed': killed})
            else:
                seen.append(o if o[0] == 'error' else ('value', None))
        elif a == 'wait':
            if kind == 'raised':
                sim.violation('wait:raised', {'exc': repr(detail)})
            elif detail != [1, 0]:
                sim.violation('wait:did-not-report-the-worker-as-done', {'done_notdone': detail})
        elif a == 'as_completed':
            if kind == 'raised':
                sim.violation('as_completed:raised', {'exc': repr(detail)})
            elif detail != [True]:
                sim.violation('as_completed:did-not-yield-the-worker', {'got': detail})
    # accessors agree with each other (all error or all value)
    kinds = set(o[0] for o in seen)
    if len(kinds) > 1:
        sim.violation('accessors:disagree-about-the-ending', {'seen': repr(seen)[:300]})
    # settled state
    if is_proc:
        ec = w.exitcode
        if was_killed:
            if ec != -kill['sig']:
                sim.violation('exitcode:wrong-after-kill', {'exitcode': ec, 'sig': kill['sig']})
        else:
            want_ec = 0 if want[0] == 'value' else (sc['code'] if (ending == 'exit' and isinstance(sc.get('code'), int)) else 1)
            if ec != want_ec and not (sc.get('unpicklable') and ec not in (0, None)):
                sim.violation('exitcode:wrong', {'exitcode': ec, 'want': want_ec})
        if not w.done():
            sim.violation('done:false-after-join', {})
    else:
        if not w.done():
            sim.violation('done:false-after-join', {})
    if is_proc:
        sim.count('child_main_thread_steps', w._popen.proc.threads[0].steps)
    return {'kill_phase': killed['phase'] if was_killed else None}


def core_abort():
    import sim.core as core
    return core.SimAbort
