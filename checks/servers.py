"""Shared harness for the server properties (C02, C04, C06, C07, C11, C16): servlet trees from a JSON
description, instrumented Worker classes, the reference composition, caller threads/tasks.

A request is a small unique int x.  A leaf with tag T maps v -> [T, v]; sequential composes; an
ensemble returns the list of its members' results; a switch routes on root(v) % k.  `root(v)`
recovers the original request from any intermediate value, so failure plans are keyed by request.
"""
import time

from checks.common import EXC_TYPES, exc_key

LOG = []  # (tag, worker_index, payload, t) appended by TagWorker.call (observation only)
INITS = []  # (tag, worker_index) workers whose __init__ completed


def root(v):
    while not isinstance(v, int):
        if isinstance(v, (list, tuple)):
            if v and isinstance(v[0], str):
                v = v[1]
            else:
                nxt = None
                for e in v:
                    if isinstance(e, (int, list, tuple)):
                        nxt = e
                        break
                if nxt is None:
                    return -1
                v = nxt
        else:
            return -1
    return v


class InitError(Exception):
    pass


class NotARequest(Exception):
    """raised by the harness worker code when something that is not a request value (an exception object, an end marker, a
    RemoteException ...) is handed to call() or preprocess(): user code must never see those"""


def _strict(v):
    if isinstance(v, bool) or not isinstance(v, (int, list, tuple)):
        raise NotARequest(type(v).__name__)


def _mk_exc(kind, tag, detail):
    t = EXC_TYPES[kind]
    if kind == 'ExcC':
        return t(tag, detail)
    return t((tag, detail))


def _imports():
    from mpservice.mpserver import Worker
    return Worker


_CLASSES = {}


def worker_classes():
    """Worker subclasses are created lazily (after mpservice is importable) but live at module level so
    that they pickle by reference for (simulated) worker processes."""
    if _CLASSES:
        return _CLASSES
    Worker = _imports()

    class TagWorker(Worker):
        def __init__(self, *, tag, delays=None, fail=None, pre_fail=None, init_fail=None, stream_threads=0, init_delay=0, none_mod=None, **kw):
            super().__init__(**kw)
            if init_delay:
                time.sleep(init_delay)
            if init_fail is not None and self.worker_index == init_fail:
                raise InitError(tag, self.worker_index)
            self.tag = tag
            self.delays = delays
            self.fail = fail
            self.pre_fail = pre_fail
            self.none_mod = none_mod  # [m, k]: the result for requests with root % m == k is None (a legitimate value)
            if stream_threads:
                self.num_stream_threads = stream_threads
            INITS.append((tag, self.worker_index))

        def call(self, x):
            import sim.core as core
            s = core._SIM
            if self.batch_size:
                xs = list(x)
                LOG.append((self.tag, self.worker_index, xs, s.now if s else 0.0))
                for v in xs:
                    _strict(v)
                roots = [root(v) for v in xs]
                d = 0
                if self.delays:
                    d = max(self.delays[r % len(self.delays)] for r in roots) if roots else 0
                if d:
                    time.sleep(d)
                if self.fail and any(r in self.fail['xs'] for r in roots):
                    raise _mk_exc(self.fail['exc'], self.tag, roots)
                if self.none_mod:
                    return [None if r % self.none_mod[0] == self.none_mod[1] else [self.tag, v] for r, v in zip(roots, xs)]
                return [[self.tag, v] for v in xs]
            LOG.append((self.tag, self.worker_index, x, s.now if s else 0.0))
            _strict(x)
            r = root(x)
            if self.delays:
                d = self.delays[r % len(self.delays)]
                if d:
                    time.sleep(d)
            if self.fail and r in self.fail['xs']:
                raise _mk_exc(self.fail['exc'], self.tag, [r])
            if self.none_mod and r % self.none_mod[0] == self.none_mod[1]:
                return None
            return [self.tag, x]

    class TagWorkerPre(TagWorker):
        def preprocess(self, x):
            _strict(x)
            r = root(x)
            if self.pre_fail and r in self.pre_fail['xs']:
                raise _mk_exc(self.pre_fail['exc'], self.tag + '.pre', [r])
            return x

    TagWorker.__qualname__ = 'TagWorker'
    TagWorkerPre.__qualname__ = 'TagWorkerPre'
    _CLASSES['TagWorker'] = TagWorker
    _CLASSES['TagWorkerPre'] = TagWorkerPre
    globals()['TagWorker'] = TagWorker
    globals()['TagWorkerPre'] = TagWorkerPre
    return _CLASSES


def build_servlet(node):
    from mpservice.mpserver import ThreadServlet, ProcessServlet, SequentialServlet, EnsembleServlet, SwitchServlet
    cls = worker_classes()
    t = node['t']
    if t in ('thread', 'process'):
        kw = dict(tag=node['tag'], delays=node.get('delays'), fail=node.get('fail'), pre_fail=node.get('pre_fail'),
                  init_fail=node.get('init_fail'), stream_threads=node.get('stream_threads', 0), init_delay=node.get('init_delay', 0),
                  none_mod=node.get('none_mod'))
        if node.get('b') is not None:
            kw['batch_size'] = node['b']
            if node['b'] > 1 and node.get('w') is not None:
                kw['batch_wait_time'] = node['w']
        wc = cls['TagWorkerPre'] if node.get('pre') or node.get('pre_fail') else cls['TagWorker']
        if t == 'thread':
            return ThreadServlet(wc, num_threads=node.get('n', 1), **kw)
        return ProcessServlet(wc, cpus=node.get('n', 1), **kw)
    ch = [build_servlet(c) for c in node['ch']]
    if t == 'seq':
        return SequentialServlet(*ch)
    if t == 'ens':
        return EnsembleServlet(*ch, fail_fast=node.get('fail_fast', True))
    if t == 'switch':
        k = len(ch)

        class Sw(SwitchServlet):
            def switch(self, x):
                return root(x) % k

        return Sw(*ch)
    raise ValueError(t)


def leaves(node):
    if node['t'] in ('thread', 'process'):
        return [node]
    out = []
    for c in node['ch']:
        out.extend(leaves(c))
    return out


# ------------------------------------------------------------------------------------------------
# reference composition.  Outcome: ('ok', value) | ('err', kind, site_tag) | ('ens', [member outcomes], n_failed)
def ref(node, v):
    t = node['t']
    if t in ('thread', 'process'):
        r = root(v)
        pf = node.get('pre_fail')
        if pf and r in pf['xs']:
            return ('err', pf['exc'], node['tag'] + '.pre')
        f = node.get('fail')
        if f and r in f['xs']:
            return ('err', f['exc'], node['tag'])
        nm = node.get('none_mod')
        if nm and r % nm[0] == nm[1]:
            return ('ok', None)
        return ('ok', [node['tag'], v])
    if t == 'seq':
        out = ('ok', v)
        for c in node['ch']:
            out = ref(c, out[1])
            if out[0] != 'ok':
                return out
        return out
    if t == 'switch':
        return ref(node['ch'][root(v) % len(node['ch'])], v)
    if t == 'ens':
        outs = [ref(c, v) for c in node['ch']]
        nfail = sum(1 for o in outs if o[0] != 'ok')
        if nfail == 0:
            return ('ok', [o[1] for o in outs])
        if node.get('fail_fast', True) or nfail == len(outs):
            return ('enserr', outs, nfail)
        return ('okmixed', outs, nfail)
    raise ValueError(t)


def effective_tree(tree):
    """Copy of the tree in which the failure set of every batching leaf is widened to the batch-mates the failing
    elements actually had (read from the call log): when a batched call fails, exactly the members of that batch fail."""
    import copy
    t2 = copy.deepcopy(tree)
    for lf in leaves(t2):
        f = lf.get('fail')
        if f and (lf.get('b') or 0) > 1:
            eff = set(f['xs'])
            bad = set(f['xs'])
            for tag, wi, payload, t in LOG:
                if tag == lf['tag'] and isinstance(payload, list):
                    roots = [root(v) for v in payload]
                    if any(r in bad for r in roots):
                        eff.update(roots)
            f['xs'] = sorted(eff)
    return t2


def batch_affected(node):
    """True if a failure of one request can legitimately fail batch-mates (some leaf batches)."""
    return any((lf.get('b') or 0) > 1 for lf in leaves(node))


def norm_value(v):
    """Observed value -> JSON-like (RemoteException/exceptions -> ['EXC', type, site])."""
    from mpservice.multiprocessing.remote_exception import RemoteException
    if isinstance(v, RemoteException):
        v = v.exc
    if isinstance(v, BaseException):
        return ['EXC', type(v).__name__, exc_site(v)]
    if isinstance(v, (list, tuple)):
        return [norm_value(i) for i in v]
    return v


def exc_site(e):
    a = e.args
    if type(e).__name__ == 'ExcC':
        return a[0] if a else None
    if a and isinstance(a[0], tuple) and a[0] and isinstance(a[0][0], str):
        return a[0][0]
    return None


def exc_batch(e):
    a = e.args
    if type(e).__name__ == 'ExcC':
        return list(a[1]) if len(a) > 1 and isinstance(a[1], (list, tuple)) else None
    if a and isinstance(a[0], tuple) and len(a[0]) > 1 and isinstance(a[0][1], (list, tuple)):
        return list(a[0][1])
    return None


def match_outcome(want, got_kind, got):
    """Compare a reference outcome with an observation. got_kind: 'value' | 'error'. Returns None or a reason."""
    from mpservice.multiprocessing.remote_exception import EnsembleError
    if want[0] == 'ok':
        if got_kind != 'value':
            return 'expected value, got error ' + repr(got)
        nv = norm_value(got)
        if nv != want[1]:
            return f'value differs: got {nv!r} want {want[1]!r}'
        return None
    if want[0] == 'err':
        if got_kind != 'error':
            return 'expected error, got value ' + repr(norm_value(got))
        if type(got).__name__ != want[1]:
            return f'error type differs: got {type(got).__name__} want {want[1]}'
        if exc_site(got) != want[2]:
            return f'error site differs: got {exc_site(got)} want {want[2]}'
        return None
    if want[0] == 'enserr':
        if got_kind != 'error' or not isinstance(got, EnsembleError):
            return 'expected EnsembleError, got ' + (repr(got) if got_kind == 'error' else repr(norm_value(got)))
        ys = got.args[1]['y']
        if len(ys) != len(want[1]):
            return 'EnsembleError has wrong number of member slots'
        for slot, o in zip(ys, want[1]):
            if slot is None:
                continue  # member not finished when fail-fast fired
            r = match_member(o, slot)
            if r:
                return 'EnsembleError slot: ' + r
        if not any(s is not None and norm_value(s)[:1] == ['EXC'] for s in ys):
            return 'EnsembleError without any failed member'
        return None
    if want[0] == 'okmixed':
        if got_kind != 'value' or not isinstance(got, list) or len(got) != len(want[1]):
            return 'expected list of member results, got ' + repr(got)
        for slot, o in zip(got, want[1]):
            r = match_member(o, slot)
            if r:
                return 'ensemble slot: ' + r
        return None
    return 'bad reference'


def match_member(o, slot):
    from mpservice.multiprocessing.remote_exception import RemoteException
    if isinstance(slot, RemoteException):
        slot = slot.exc
    if isinstance(slot, BaseException):
        return match_outcome(o, 'error', slot)
    return match_outcome(o, 'value', slot)


# ------------------------------------------------------------------------------------------------
# running a scenario
class Rec:
    """one request's observed fate"""
    __slots__ = ('caller', 'x', 'via', 'kind', 'value', 't0', 't1', 'timeout', 'bp', 'backlog_at_reject', 'pos', 'step0', 'step1', 'full_seen')

    def __init__(self, caller, x, via, timeout=None, bp=None, pos=None):
        self.caller = caller
        self.x = x
        self.via = via
        self.kind = None  # value | error | timeout | full | abandoned | pending
        self.value = None
        self.t0 = None
        self.t1 = None
        self.timeout = timeout
        self.bp = bp
        self.backlog_at_reject = None
        self.pos = pos
        self.step0 = None
        self.step1 = None
        self.full_seen = None

    def brief(self):
        v = self.value
        if self.kind == 'value':
            v = norm_value(v)
        elif self.kind == 'error':
            v = [type(v).__name__, exc_site(v)]
        else:
            v = None
        return {'caller': self.caller, 'x': self.x, 'via': self.via, 'kind': self.kind, 'value': v,
                't0': self.t0, 't1': self.t1, 'timeout': self.timeout}


def _classify_exc(rec, e):
    from mpservice._common import TimeoutError as MPTimeout
    from mpservice.mpserver import ServerBacklogFull
    if isinstance(e, MPTimeout):
        rec.kind = 'timeout'
    elif isinstance(e, ServerBacklogFull):
        rec.kind = 'full'
        rec.backlog_at_reject = e.args[0]
        rec.value = e
        import sim.core as core
        lf = getattr(core._SIM, 'last_full_step', None)
        if lf is not None and rec.step0 is not None:
            rec.full_seen = lf >= rec.step0 - 1
    else:
        rec.kind = 'error'
        rec.value = e


def sync_caller(sim, server, ci, ops, recs):
    import gc
    for op in ops:
        k = op['op']
        if k == 'sleep':
            time.sleep(op['d'])
        elif k == 'gc':
            sim.force_gc()
        elif k == 'call':
            r = Rec(ci, op['x'], 'call', op.get('timeout'), op.get('bp', False))
            recs.append(r)
            r.t0 = sim.now
            r.step0 = sim.steps
            try:
                kw = {}
                if op.get('timeout') is not None:
                    kw['timeout'] = op['timeout']
                y = server.call(op['x'], backpressure=bool(op.get('bp', False)), **kw)
                r.kind = 'value'
                r.value = y
            except Exception as e:
                _classify_exc(r, e)
                e = None
            r.t1 = sim.now
        elif k == 'stream':
            xs = op['xs']
            rs = [Rec(ci, x, 'stream', op.get('timeout'), None, pos=i) for i, x in enumerate(xs)]
            recs.extend(rs)
            t0 = sim.now
            for r in rs:
                r.kind = 'abandoned'
                r.t0 = t0
            kw = {}
            if op.get('timeout') is not None:
                kw['timeout'] = op['timeout']
            src = SlowIter(xs, op.get('src_delay', 0))
            it = server.stream(src, return_x=True, return_exceptions=bool(op.get('return_exceptions', True)), **kw)
            n = 0
            try:
                for x, y in it:
                    r = rs[n]
                    if x != r.x:
                        sim.violation('stream:return_x-pairs-result-with-wrong-input', {'got_x': x, 'want_x': r.x})
                    r.t1 = sim.now
                    if isinstance(y, BaseException):
                        _classify_exc(r, y)
                    else:
                        r.kind = 'value'
                        r.value = y
                    n += 1
                    if op.get('stop_after') is not None and n >= op['stop_after']:
                        sim.count('stream_abandoned')
                        break
            except Exception as e:
                if n < len(rs):
                    _classify_exc(rs[n], e)
                    rs[n].t1 = sim.now
                e = None
            it.close()
            it = None


class SlowIter:
    def __init__(self, xs, d):
        self.xs = list(xs)
        self.d = d
        self.i = 0

    def __iter__(self):
        return self

    def __next__(self):
        if self.i >= len(self.xs):
            raise StopIteration
        if self.d:
            time.sleep(self.d)
        self.i += 1
        return self.xs[self.i - 1]

    def __aiter__(self):
        return self

    async def __anext__(self):
        import asyncio
        if self.i >= len(self.xs):
            raise StopAsyncIteration
        if self.d:
            await asyncio.sleep(self.d)
        self.i += 1
        return self.xs[self.i - 1]


async def async_caller(sim, server, ci, ops, recs):
    import asyncio
    for op in ops:
        k = op['op']
        if k == 'sleep':
            await asyncio.sleep(op['d'])
        elif k == 'gc':
            sim.force_gc()
        elif k == 'call':
            r = Rec(ci, op['x'], 'call', op.get('timeout'), op.get('bp', False))
            recs.append(r)
            r.t0 = sim.now
            r.step0 = sim.steps
            try:
                kw = {}
                if op.get('timeout') is not None:
                    kw['timeout'] = op['timeout']
                coro = server.call(op['x'], backpressure=bool(op.get('bp', False)), **kw)
                if op.get('cancel_after') is not None:
                    task = asyncio.ensure_future(coro)
                    done, _ = await asyncio.wait([task], timeout=op['cancel_after'])
                    if not done:
                        task.cancel()
                        sim.count('caller_cancelled')
                    try:
                        y = await task
                        r.kind = 'value'
                        r.value = y
                    except asyncio.CancelledError:
                        r.kind = 'cancelled'
                else:
                    y = await coro
                    r.kind = 'value'
                    r.value = y
            except Exception as e:
                _classify_exc(r, e)
                e = None
            r.t1 = sim.now
        elif k == 'stream':
            xs = op['xs']
            rs = [Rec(ci, x, 'stream', op.get('timeout'), None, pos=i) for i, x in enumerate(xs)]
            recs.extend(rs)
            t0 = sim.now
            for r in rs:
                r.kind = 'abandoned'
                r.t0 = t0
            kw = {}
            if op.get('timeout') is not None:
                kw['timeout'] = op['timeout']
            src = SlowIter(xs, op.get('src_delay', 0))
            it = server.stream(src, return_x=True, return_exceptions=bool(op.get('return_exceptions', True)), **kw)
            n = 0
            try:
                async for x, y in it:
                    r = rs[n]
                    if x != r.x:
                        sim.violation('stream:return_x-pairs-result-with-wrong-input', {'got_x': x, 'want_x': r.x})
                    r.t1 = sim.now
                    if isinstance(y, BaseException):
                        _classify_exc(r, y)
                    else:
                        r.kind = 'value'
                        r.value = y
                    n += 1
                    if op.get('stop_after') is not None and n >= op['stop_after']:
                        sim.count('stream_abandoned')
                        break
            except Exception as e:
                if n < len(rs):
                    _classify_exc(rs[n], e)
                    rs[n].t1 = sim.now
                e = None
            await it.aclose()
            it = None


class ServerRun:
    """Everything observed in one scenario execution."""

    def __init__(self):
        self.recs = []
        self.post = []
        self.enter_exc = None
        self.exit_ok = False
        self.backlog_end = None
        self.server = None
        self.warnings = []
        self.t_enter = None
        self.t_exit0 = None
        self.t_exit1 = None
        self.backlog_after_exit = 0


def run_sync(sim, sc, on_entered=None, drain_wait=30.0):
    import threading
    from mpservice.mpserver import Server
    out = ServerRun()
    servlet = build_servlet(sc['tree'])
    server = Server(servlet, capacity=sc['capacity'])
    out.server = server
    try:
        server.__enter__()
    except Exception as e:
        out.enter_exc = e
        return out
    out.t_enter = sim.now
    if on_entered is not None:
        on_entered(server)
    try:
        ths = []
        for ci, c in enumerate(sc['callers']):
            th = threading.Thread(target=sync_caller, args=(sim, server, ci, c['ops'], out.recs), name=f'harness-caller-{ci}', daemon=True)
            ths.append(th)
        for th in ths:
            th.start()
        for th in ths:
            th.join()
        # late results of abandoned requests drain; then the server must be idle
        # (scenario flag 'exit_busy': leave at once instead, with abandoned work still in flight)
        t_end = sim.now + drain_wait
        while server.backlog and sim.now < t_end and not sc.get('exit_busy'):
            time.sleep(0.05)
        out.backlog_end = 0 if sc.get('exit_busy') else server.backlog
        for x in sc.get('post', []) if not sc.get('exit_busy') else []:
            r = Rec(-1, x, 'post', 100.0, False)
            out.post.append(r)
            r.t0 = sim.now
            try:
                r.value = server.call(x, timeout=100.0, backpressure=False)
                r.kind = 'value'
            except Exception as e:
                _classify_exc(r, e)
                e = None
            r.t1 = sim.now
    finally:
        out.t_exit0 = sim.now
        server.__exit__(None, None, None)
        out.t_exit1 = sim.now
        out.exit_ok = True
    out.backlog_after_exit = server.backlog
    return out


def run_async(sim, sc, on_entered=None, drain_wait=30.0):
    import asyncio
    from mpservice.mpserver import AsyncServer
    out = ServerRun()
    servlet = build_servlet(sc['tree'])

    async def main():
        server = AsyncServer(servlet, capacity=sc['capacity'])
        out.server = server
        try:
            await server.__aenter__()
        except Exception as e:
            out.enter_exc = e
            return
        out.t_enter = sim.now
        if on_entered is not None:
            on_entered(server)
        try:
            tasks = [asyncio.create_task(async_caller(sim, server, ci, c['ops'], out.recs), name=f'harness-caller-{ci}')
                     for ci, c in enumerate(sc['callers'])]
            await asyncio.gather(*tasks)
            t_end = sim.now + drain_wait
            while server.backlog and sim.now < t_end and not sc.get('exit_busy'):
                await asyncio.sleep(0.05)
            out.backlog_end = 0 if sc.get('exit_busy') else server.backlog
            for x in sc.get('post', []) if not sc.get('exit_busy') else []:
                r = Rec(-1, x, 'post', 100.0, False)
                out.post.append(r)
                r.t0 = sim.now
                try:
                    r.value = await server.call(x, timeout=100.0, backpressure=False)
                    r.kind = 'value'
                except Exception as e:
                    _classify_exc(r, e)
                    e = None
                r.t1 = sim.now
        finally:
            out.t_exit0 = sim.now
            await server.__aexit__(None, None, None)
            out.t_exit1 = sim.now
            out.exit_ok = True
        # whatever the library still has scheduled on this loop (finalisers of abandoned streams) gets its turn
        for _ in range(5):
            await asyncio.sleep(0)
        out.backlog_after_exit = server.backlog

    asyncio.run(main())
    return out


def run_scenario(sim, sc, **kw):
    del LOG[:]
    del INITS[:]
    if sc.get('async'):
        return run_async(sim, sc, **kw)
    return run_sync(sim, sc, **kw)


def multi_writer(tree):
    """True if some queue of the tree has more than one writer, or a writer that emits its end marker ahead of its own pending
    results: a leaf with >=2 workers, a batching worker (collector thread), a worker with extra stream threads, an ensemble or
    switch relay. On such trees the recorded shutdown defect (reader stops at the FIRST end marker) applies."""
    for lf in leaves(tree):
        if lf.get('n', 1) > 1 or (lf.get('b') or 0) > 1 or lf.get('stream_threads'):
            return True

    def relay(node):
        return node['t'] in ('ens', 'switch') or any(relay(c) for c in node.get('ch', []))
    return relay(tree)


# ------------------------------------------------------------------------------------------------
# scenario generation helpers
TAGS = 'ABCDEFGH'


def gen_leaf(rng, tag, proc_ok=False, batch_ok=True):
    lf = {'t': 'process' if (proc_ok and rng.random() < 0.5) else 'thread', 'tag': tag, 'n': rng.choice([1, 1, 2, 3]),
          'delays': [rng.choice([0, 0.001, 0.002, 0.005, 0.01, 0.03]) for _ in range(rng.choice([1, 2, 3]))]}
    if batch_ok and rng.random() < 0.4:
        lf['b'] = rng.choice([1, 2, 4])
        if lf['b'] > 1:
            lf['w'] = rng.choice([0, 0.005, 0.005])
    if rng.random() < 0.1:
        lf['stream_threads'] = 2
    if rng.random() < 0.3:
        lf['pre'] = True  # a preprocess method that accepts everything (values failed upstream must still bypass it)
    return lf


def terminal_leaves(node):
    """leaves whose result is (part of) the final answer and is not fed to a later stage"""
    t = node['t']
    if t in ('thread', 'process'):
        return [node]
    if t == 'seq':
        return terminal_leaves(node['ch'][-1])
    out = []
    for c in node['ch']:
        out.extend(terminal_leaves(c))
    return out


def gen_tree(rng, proc_ok=False, batch_ok=True, kinds=('leaf', 'leaf', 'seq', 'ens', 'ens', 'switch')):
    tree = _gen_tree(rng, proc_ok, batch_ok, kinds)
    if rng.random() < 0.2:
        # None is a legitimate result (a lookup miss, a side-effect-only member): some final-stage worker returns it for some requests
        for lf in terminal_leaves(tree):
            if rng.random() < 0.6:
                m = rng.choice([2, 3, 5])
                lf['none_mod'] = [m, rng.randrange(m)]
    return tree


def _gen_tree(rng, proc_ok=False, batch_ok=True, kinds=('leaf', 'leaf', 'seq', 'ens', 'ens', 'switch')):
    tags = iter(TAGS)
    kind = rng.choice(kinds)
    if kind == 'leaf':
        return gen_leaf(rng, next(tags), proc_ok, batch_ok)

    def leaf():
        return gen_leaf(rng, next(tags), proc_ok, batch_ok)

    def small(k2):
        node = {'t': k2, 'ch': [leaf() for _ in range(2)]}
        if k2 == 'ens':
            node['fail_fast'] = rng.random() < 0.5
        return node

    n = rng.choice([2, 2, 3])
    ch = []
    for i in range(n):
        r = rng.random()
        if kind == 'seq':
            ch.append(small('ens') if (r < 0.2 and i == n - 1) else leaf())
        elif kind == 'ens':
            ch.append(small('seq') if r < 0.2 else leaf())
        else:
            ch.append(small(rng.choice(['seq', 'ens'])) if r < 0.3 else leaf())
    node = {'t': kind, 'ch': ch}
    if kind == 'ens':
        node['fail_fast'] = rng.random() < 0.5
    return node


def mean_service_time(tree):
    """rough virtual duration of one request through the tree (for placing deadlines)"""
    t = tree['t']
    if t in ('thread', 'process'):
        return max(tree.get('delays') or [0]) + (tree.get('w') or 0)
    ts = [mean_service_time(c) for c in tree['ch']]
    return sum(ts) if t == 'seq' else max(ts) + (0.005 if t == 'ens' else 0)
