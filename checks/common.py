"""Helpers shared by the per-property check modules."""
import os
import threading
import traceback
import types


def swarm(rng, racy=0.3, line=0.25, strategies=('random', 'random', 'weighted', 'weighted', 'sticky', 'pct'), starve=0.0, **extra):
    """Per-run simulator configuration ("swarm": vary everything per run)."""
    strat = rng.choice(strategies)
    cfg = {'strategy': strat}
    if strat == 'sticky':
        cfg['strategy'] = 'random'
        cfg['p_switch'] = 0.01
    else:
        cfg['p_switch'] = rng.choice([0.02, 0.1, 0.3, 0.6])
    if strat == 'pct':
        cfg['pct_depth'] = rng.choice([1, 2, 3])
        cfg['pct_len'] = rng.choice([50, 200, 1000])
    if rng.random() < racy:
        cfg['time_mode'] = 'racy'
        cfg['p_racy'] = rng.choice([0.02, 0.05, 0.1])
    else:
        cfg['time_mode'] = 'exact'
    if rng.random() < line:
        cfg['line_p'] = rng.choice([0.02, 0.05, 0.15])
    if rng.random() < starve:
        cfg['p_starve'] = rng.choice([0.002, 0.01, 0.03])
    cfg.update(extra)
    return cfg


class ExcA(Exception):
    pass


class ExcB(ValueError):
    pass


class ExcC(Exception):
    def __init__(self, a, b=0):
        super().__init__(a, b)
        self.a = a
        self.b = b


class ExcD(Exception):
    """constructor needs two positional arguments (cannot be rebuilt from a single string)"""

    def __init__(self, a, b):
        super().__init__(a, b)


import queue as _queue

EXC_TYPES = {'ExcA': ExcA, 'ExcB': ExcB, 'ExcC': ExcC, 'KeyError': KeyError, 'ZeroDivisionError': ZeroDivisionError, 'ExcD': ExcD,
             # classes the library (and the stdlib machinery it is built on) uses internally for its own control flow: user code may
             # raise them just as well (a worker that calls q.get(timeout=..) raises queue.Empty, a client call raises TimeoutError)
             'TimeoutError': TimeoutError, 'Empty': _queue.Empty, 'Full': _queue.Full, 'EOFError': EOFError}
LIB_EXCS = ['TimeoutError', 'TimeoutError', 'Empty', 'Full', 'EOFError']


def exc_choice(rng, base):
    """an exception class name for a generated failure: mostly the harness's own classes, sometimes a library-internal one"""
    return rng.choice(base) if rng.random() < 0.7 else rng.choice(LIB_EXCS)


def make_exc(kind, x):
    t = EXC_TYPES[kind]
    if t is ExcC:
        return ExcC(x, 7)
    if t is ExcD:
        return ExcD('boom', x)
    return t(('boom', x))


_VERIF_DIR = os.path.dirname(os.path.dirname(os.path.abspath(__file__))) + os.sep


def note_exc(e):
    """Every exception a check looks at passes through here. A NameError raised by a line of /verif, or an AttributeError raised by a
    line of /verif about an object (or module) that /verif itself defines, is a programming error of the harness whatever the library
    did: the run is then classed harness-error (exit 2), never violation (DESIGN B.4, "AsyncSource without odd"). Deliberately narrow:
    TypeError, KeyError, AssertionError ... in harness callbacks stay violations (the strict worker code raises them when the library
    hands it something wrong). Touches neither the event log nor the PRNG."""
    try:
        if not isinstance(e, (NameError, AttributeError)):
            return
        tb = e.__traceback__
        if tb is None:
            return
        while tb.tb_next is not None:
            tb = tb.tb_next
        if not tb.tb_frame.f_code.co_filename.startswith(_VERIF_DIR):
            return
        if isinstance(e, AttributeError):
            obj = getattr(e, 'obj', None)
            if obj is None:
                return
            mod = obj.__name__ if isinstance(obj, types.ModuleType) else type(obj).__module__
            if (mod or '').split('.')[0] not in ('checks', 'sim'):
                return
        from sim import core
        s = core.active()
        if s is not None:
            s.harness_errors.append(''.join(traceback.format_exception(e))[-3000:])
    except Exception:
        pass


def exc_key(e):
    """Comparable identity of an exception value: type name + args."""
    note_exc(e)
    return [type(e).__name__, _plain(e.args)]


def _plain(v):
    if isinstance(v, (list, tuple)):
        return [_plain(i) for i in v]
    if isinstance(v, (int, float, str, bool)) or v is None:
        return v
    if isinstance(v, bytes):
        return ['bytes', len(v)]
    if isinstance(v, BaseException):
        return exc_key(v)
    return repr(v)


plain = _plain


def start_thread(target, *args, name=None):
    t = threading.Thread(target=target, args=args, name=name, daemon=True)
    t.start()
    return t


def harness_thread_names(sim):
    return [t.name for t in sim.threads]


def lib_threads_alive(sim, known_idx):
    """Simulated threads not created by the harness (idx not in known_idx) that are still alive."""
    out = []
    for t in sim.threads:
        if t.idx in known_idx or t.state in ('done', 'dead'):
            continue
        out.append(t)
    return out


def thread_label(t):
    th = t.pythread
    return getattr(th, 'name', None) or t.name
