"""Shared harness for the stream properties (C01, C03, C05, C08): instrumented sources, stage
functions, pipeline builder from a JSON description, and the sequential reference semantics.

Elements are ints; every transformation keeps the source index recoverable as `x % 1000`:
    map:    x -> x + 1000          parmap / fifo worker: x -> x + 100000
    filter: keeps idx % 3 != 1
so each output is attributable to exactly one input.
"""
import threading
import time

from checks.common import make_exc, exc_key, note_exc

MAP_ADD = 1000
PAR_ADD = 100000


def idx_of(x):
    return x % 1000


class Fail(Exception):
    pass


def _raise(kind, x):
    if kind == 'StopRequested':
        from mpservice._common import StopRequested
        raise StopRequested()
    raise make_exc(kind, x)


_ODD = {}


def odd_value(kind, i):
    """element i of a source with unusual-but-legal values; the same object every time it is asked for (so == is identity-safe)"""
    if kind is None:
        return i
    key = (kind, i)
    if key not in _ODD:
        _ODD[key] = {'none': None, 'false': False, 'empty_str': '', 'empty_tuple': (), 'exc_obj': ValueError('data', i),
                     'stop_obj': StopIteration(i), 'zero': 0, 'type': StopIteration}[kind]
    return _ODD[key]


ODD_KINDS = ['none', 'none', 'none', 'false', 'empty_str', 'empty_tuple', 'exc_obj', 'stop_obj', 'zero', 'type']


class Source:
    """Iterator over range(n) with virtual delays and an optional failure position."""

    def __init__(self, sim, n, delays=None, fail=None, infinite=False, odd=None):
        self.sim = sim
        self.odd = odd or {}  # {position(str): kind}: elements that are unusual but legal VALUES (None, falsy, exception objects, ...)
        self.n = n
        self.delays = delays
        self.fail = fail  # {'pos': j, 'exc': kind}
        self.pulled = 0
        self.i = 0
        self.infinite = infinite
        self.on_pull = None
        self.entered = 0
        self.ended = False
        self.iters = 0

    def __iter__(self):
        self.iters += 1
        return self

    def __next__(self):
        i = self.i
        self.entered += 1
        if self.delays:
            d = self.delays[i % len(self.delays)]
            if d:
                time.sleep(d)
        if self.fail is not None and i == self.fail['pos']:
            self.i += 1
            self.ended = True
            _raise(self.fail['exc'], i)
        if i >= self.n and not self.infinite:
            self.ended = True
            raise StopIteration
        self.i += 1
        self.pulled += 1
        if self.on_pull is not None:
            self.on_pull(self)
        if self.odd:
            return odd_value(self.odd.get(str(i)), i)
        return i


class StageFn:
    """map / parmap worker function with call log, virtual service times, failure set, concurrency meter."""

    def __init__(self, sim, add, delays=None, fail=None, name='fn', none=None, ret_exc=None):
        self.sim = sim
        self.add = add
        self.ret_exc = ret_exc or {}  # {'idx': [..], 'exc': kind}: the function RETURNS (does not raise) an exception object: a value
        self.none = none or {}  # {'idx': [..]}: the function's (legitimate) result for these inputs is None
        self.delays = delays
        self.fail = fail or {}  # {'idx': [..], 'exc': kind}
        self.calls = []
        self.running = 0
        self.max_running = 0
        self.name = name
        self.__name__ = name

    def __call__(self, x, **kw):
        self.calls.append(x)
        self.running += 1
        if self.running > self.max_running:
            self.max_running = self.running
        try:
            if self.delays:
                d = self.delays[idx_of(x) % len(self.delays)]
                if d:
                    time.sleep(d)
            if self.fail and idx_of(x) in self.fail['idx']:
                _raise(self.fail['exc'], x)
            if self.none and idx_of(x) in self.none['idx']:
                return None
            if self.ret_exc and idx_of(x) in self.ret_exc['idx']:
                return make_exc(self.ret_exc['exc'], x)
            return x + self.add
        finally:
            self.running -= 1


def keep(x):
    return idx_of(x) % 3 != 1


# ------------------------------------------------------------------------------------------------
def reference(sc):
    """Sequential meaning of the pipeline: (outputs, final_exception_key or None).

    The first failure in stream order ends the stream. For return_exceptions stages the failure
    becomes that element's output value (as an exception key) and the stream goes on."""
    n = sc['n']
    outs = []
    src_fail = sc.get('src_fail')
    for i in range(n + 1):
        if src_fail is not None and i == src_fail['pos']:
            return outs, [src_fail['exc'], i]
        if i >= n:
            break
        x = i
        dropped = False
        failed = None
        for st in sc['stages']:
            op = st['op']
            if op == 'map':
                f = st.get('fail')
                if f and idx_of(x) in f['idx']:
                    failed = [f['exc'], x]
                    break
                x = x + MAP_ADD
            elif op == 'filter':
                if not keep(x):
                    dropped = True
                    break
            elif op in ('parmap', 'fifo'):
                pf = st.get('pre_fail')
                f = st.get('fail')
                x_in = x
                if pf and idx_of(x) in pf['idx']:
                    err = [pf['exc'], x]
                elif f and idx_of(x) in f['idx']:
                    err = [f['exc'], x]
                else:
                    err = None
                if err is not None:
                    if st.get('return_exceptions'):
                        y = ['EXC'] + err
                    else:
                        failed = err
                        break
                elif st.get('none') and idx_of(x) in st['none']['idx']:
                    y = None
                elif st.get('ret_exc') and idx_of(x) in st['ret_exc']['idx']:
                    y = ['EXC', st['ret_exc']['exc'], x]  # an exception object as an ordinary value: yielded, never raised
                else:
                    y = x + PAR_ADD
                x = [x_in, y] if st.get('return_x') else y
            elif op == 'buffer':
                pass
        if failed is not None:
            return outs, failed
        if not dropped:
            outs.append(x)
    return outs, None


def norm_out(v):
    """Normalise an observed output for comparison with the reference."""
    if isinstance(v, tuple):
        return [norm_out(i) for i in v]
    if isinstance(v, BaseException):
        k = exc_key(v)
        return ['EXC', k[0], _exc_x(v)]
    return v


def _exc_x(e):
    a = e.args
    if type(e).__name__ == 'ExcC':
        return a[0]
    if a and isinstance(a[0], tuple) and len(a[0]) == 2:
        return a[0][1]
    return None


def exc_obs(e):
    note_exc(e)
    return [type(e).__name__, _exc_x(e)]


def preproc_fn(pf):
    def pre(x):
        if pf and idx_of(x) in pf['idx']:
            _raise(pf['exc'], x)
        return x
    return pre


def build(sim, sc, source):
    """Build the sync pipeline described by sc on top of `source`. Returns (iterable, fns)."""
    from mpservice.streamer import Stream, fifo_stream
    from concurrent.futures import ThreadPoolExecutor
    fns = {}
    cleanup = []
    s = Stream(source)
    cur = s
    for k, st in enumerate(sc['stages']):
        op = st['op']
        if op == 'map':
            fn = StageFn(sim, MAP_ADD, None, st.get('fail'), name=f'map{k}')
            fns[k] = fn
            cur = cur.map(fn)
        elif op == 'filter':
            cur = cur.filter(keep)
        elif op == 'buffer':
            cur = cur.buffer(st['m'])
        elif op == 'parmap':
            fn = StageFn(sim, PAR_ADD, st.get('delays'), st.get('fail'), name=f'par{k}')
            fns[k] = fn
            kw = dict(concurrency=st['c'], return_x=bool(st.get('return_x')), return_exceptions=bool(st.get('return_exceptions')))
            if st.get('afn'):
                cur = cur.parmap(make_async_fn(fn), **kw)
            else:
                cur = cur.parmap(fn, executor=st.get('executor', 'thread'), **kw)
        elif op == 'fifo':
            fn = StageFn(sim, PAR_ADD, st.get('delays'), st.get('fail'), name=f'fifo{k}')
            fns[k] = fn
            pool = ThreadPoolExecutor(st['c'], thread_name_prefix='harness-pool')
            cleanup.append(pool)

            def work(x, _pool=pool, _fn=fn):
                return _pool.submit(_fn, x)

            kw = {}
            if st.get('pre_fail') is not None or st.get('pre'):
                kw['preprocessor'] = preproc_fn(st.get('pre_fail'))
            prev = cur

            class Fifo:
                def __init__(self, inner, st=st, work=work, kw=kw):
                    self.inner = inner
                    self.st = st
                    self.work = work
                    self.kw = kw

                def __iter__(self):
                    return fifo_stream(self.inner, self.work, capacity=self.st['cap'], return_x=bool(self.st.get('return_x')),
                                       return_exceptions=bool(self.st.get('return_exceptions')), **self.kw)

            cur = Stream(Fifo(prev))
    return cur, fns, cleanup


# ------------------------------------------------------------------------------------------------
# asyncio flavours
class AsyncSource:
    def __init__(self, sim, n, delays=None, fail=None, odd=None):
        self.sim = sim
        self.odd = odd or {}  # same meaning as Source.odd
        self.n = n
        self.delays = delays
        self.fail = fail
        self.pulled = 0
        self.entered = 0
        self.i = 0
        self.on_pull = None

    def __aiter__(self):
        return self

    async def __anext__(self):
        import asyncio
        i = self.i
        self.entered += 1
        if self.delays:
            d = self.delays[i % len(self.delays)]
            if d:
                await asyncio.sleep(d)
        if self.fail is not None and i == self.fail['pos']:
            self.i += 1
            _raise(self.fail['exc'], i)
        if i >= self.n:
            raise StopAsyncIteration
        self.i += 1
        self.pulled += 1
        if self.on_pull is not None:
            self.on_pull(self)
        if self.odd:
            return odd_value(self.odd.get(str(i)), i)
        return i


def make_async_fn(fn):
    """async worker function sharing the bookkeeping of a StageFn"""
    import asyncio

    async def afn(x, **kw):
        fn.calls.append(x)
        fn.running += 1
        if fn.running > fn.max_running:
            fn.max_running = fn.running
        try:
            if fn.delays:
                d = fn.delays[idx_of(x) % len(fn.delays)]
                if d:
                    await asyncio.sleep(d)
            if fn.fail and idx_of(x) in fn.fail['idx']:
                _raise(fn.fail['exc'], x)
            if fn.none and idx_of(x) in fn.none['idx']:
                return None
            if fn.ret_exc and idx_of(x) in fn.ret_exc['idx']:
                return make_exc(fn.ret_exc['exc'], x)
            return x + fn.add
        finally:
            fn.running -= 1

    return afn


def build_async(sim, sc, source):
    """AsyncStream pipeline (stages: map, filter, buffer, parmap[afn])."""
    from mpservice.streamer._streamer_async import AsyncStream
    fns = {}
    cur = AsyncStream(source)
    for k, st in enumerate(sc['stages']):
        op = st['op']
        if op == 'map':
            fn = StageFn(sim, MAP_ADD, None, st.get('fail'), name=f'map{k}')
            fns[k] = fn
            cur = cur.map(make_async_fn(fn) if st.get('afn') else fn)
        elif op == 'filter':
            cur = cur.filter(keep)
        elif op == 'buffer':
            cur = cur.buffer(st['m'])
        elif op == 'parmap':
            fn = StageFn(sim, PAR_ADD, st.get('delays'), st.get('fail'), name=f'par{k}')
            fns[k] = fn
            kw = dict(concurrency=st['c'], return_x=bool(st.get('return_x')), return_exceptions=bool(st.get('return_exceptions')))
            if st.get('afn'):
                cur = cur.parmap(make_async_fn(fn), **kw)
            else:
                cur = cur.parmap(fn, executor='thread', **kw)
        else:
            raise ValueError(op)
    return cur, fns
