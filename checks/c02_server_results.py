"""C02 - Server answers every request with its own result (no cross-talk)."""
from checks import servers
from checks.common import swarm, exc_choice

ID = 'C02'
LEVEL = 'exploration'
NEEDS = ('threads', 'aio', 'proc')
PROC_READY = True
QUICK = dict(runs=12000, wall=85)
THOROUGH = dict(runs=300000, wall=1500)
RULE = ('scenario = servlet tree from a grammar (Thread/Process leaves with 1-3 workers, batch_size in {0,1,2,4}, Sequential, Ensemble '
        '(fail_fast both ways), Switch on x%k), capacity 1..6, Server or AsyncServer, 2-4 concurrent callers issuing call / stream '
        '(return_x) / gc / sleep ops over unique ints, planned failures in chosen leaves, some short deadlines and abandoned streams; '
        'faults: adversarial-but-legal id() reuse + GC points, starvation, line pre-emption inside _enqueue, racy timers; '
        'oracle = reference composition ref(tree, x) per request')
NONTRIVIAL_RULE = '>=2 caller threads/tasks had requests in flight together (>=2 runnable threads at some step) and >=4 requests were answered'
REAL = ['mpservice.mpserver (Server, AsyncServer, ThreadServlet, SequentialServlet, EnsembleServlet, SwitchServlet, Worker incl. batching)',
        'mpservice.streamer.fifo_stream / async_fifo_stream', 'stdlib threading/queue/concurrent.futures/asyncio above the primitives']
STUB = ['thread scheduler', 'clock', 'asyncio selector', 'id() allocator (deterministic, adversarial reuse)']


def gen(rng, tier):
    tree = servers.gen_tree(rng, proc_ok=PROC_READY and rng.random() < 0.15)
    lvs = servers.leaves(tree)
    nxt = iter(range(rng.choice([0, 1]), 1000))  # request value 0 (falsy) included in half of the runs
    callers = []
    allx = []
    svc = servers.mean_service_time(tree)
    is_async = rng.random() < 0.35
    for ci in range(rng.choice([2, 2, 3, 4])):
        ops = []
        for _ in range(rng.choice([2, 3, 4, 6])):
            r = rng.random()
            if r < 0.55:
                x = next(nxt)
                allx.append(x)
                op = {'op': 'call', 'x': x, 'timeout': 100.0, 'bp': False}
                if rng.random() < 0.15:
                    op['timeout'] = max(0.0005, svc * rng.choice([0.3, 0.9, 1.0, 1.1, 2.0]))
                if rng.random() < 0.1:
                    op['bp'] = True
                ops.append(op)
            elif r < 0.8:
                xs = [next(nxt) for _ in range(rng.choice([1, 3, 5, 8]))]
                allx.extend(xs)
                op = {'op': 'stream', 'xs': xs, 'timeout': 100.0, 'return_exceptions': True, 'src_delay': rng.choice([0, 0, 0.001])}
                if rng.random() < 0.2:
                    op['stop_after'] = rng.randrange(1, len(xs) + 1)
                ops.append(op)
            elif r < 0.9:
                ops.append({'op': 'gc'})
            else:
                ops.append({'op': 'sleep', 'd': rng.choice([0.001, 0.01, 0.05])})
        callers.append({'ops': ops})
    # failure plan
    if allx and rng.random() < 0.6:
        for lf in rng.sample(lvs, min(len(lvs), rng.choice([1, 1, 2]))):
            key = 'pre_fail' if rng.random() < 0.2 else 'fail'
            lf[key] = {'xs': sorted(rng.sample(allx, min(len(allx), rng.choice([1, 2, 4])))), 'exc': exc_choice(rng, ['ExcA', 'ExcB', 'ExcC', 'KeyError'])}
    sc = {'tree': tree, 'capacity': rng.choice([1, 2, 3, 4, 6]), 'async': is_async, 'callers': callers,
          'post': [next(nxt) for _ in range(2)]}
    cfg = swarm(rng, racy=0.25, line=0.3, max_time=400.0, id_reuse=rng.choice([0.0, 0.5, 0.95]), max_steps=600_000)
    return {'scenario': sc, 'sim': cfg}


def shrink(sc):
    cs = sc['callers']
    for i in range(len(cs)):
        if len(cs) > 1:
            yield dict(sc, callers=cs[:i] + cs[i + 1:])
    for i, c in enumerate(cs):
        for j in range(len(c['ops'])):
            yield dict(sc, callers=cs[:i] + [{'ops': c['ops'][:j] + c['ops'][j + 1:]}] + cs[i + 1:])
    for i, c in enumerate(cs):
        for j, op in enumerate(c['ops']):
            if op['op'] == 'stream' and len(op['xs']) > 1:
                op2 = dict(op, xs=op['xs'][:-1])
                if op2.get('stop_after') is not None:
                    op2['stop_after'] = min(op2['stop_after'], len(op2['xs']))
                yield dict(sc, callers=cs[:i] + [{'ops': c['ops'][:j] + [op2] + c['ops'][j + 1:]}] + cs[i + 1:])
    if sc.get('post'):
        yield dict(sc, post=sc['post'][:-1])
    t = sc['tree']
    if t['t'] != 'thread' and t['t'] != 'process':
        for c in t['ch']:
            if t['t'] != 'switch':
                yield dict(sc, tree=c)
        if len(t['ch']) > (2 if t['t'] == 'ens' else 1):
            yield dict(sc, tree=dict(t, ch=t['ch'][:-1]))
    for lf_i, lf in enumerate(servers.leaves(t)):
        for key in ('b', 'stream_threads', 'none_mod'):
            if lf.get(key):
                import copy
                t2 = copy.deepcopy(t)
                servers.leaves(t2)[lf_i].pop(key)
                servers.leaves(t2)[lf_i].pop('w', None)
                yield dict(sc, tree=t2)
        if lf.get('n', 1) > 1:
            import copy
            t2 = copy.deepcopy(t)
            servers.leaves(t2)[lf_i]['n'] = 1
            yield dict(sc, tree=t2)


def tags(sim, sc, obs):
    t = ['server:' + ('async' if sc['async'] else 'sync'), 'tree:' + sc['tree']['t']]
    for k, v in (obs.get('kinds') or {}).items():
        t.append('outcome:' + k)
    return t


def nontrivial(sim, sc, obs):
    return sim.max_runnable >= 2 and (obs.get('kinds') or {}).get('value', 0) + (obs.get('kinds') or {}).get('error', 0) >= 4


def check_outcomes(sim, sc, out, strict_timeouts=True):
    """The C02 oracle, shared with C04/C07."""
    batchy = servers.batch_affected(sc['tree'])
    tree = servers.effective_tree(sc['tree']) if batchy else sc['tree']
    failroots = set()
    for lf in servers.leaves(tree):
        for key in ('fail', 'pre_fail'):
            if lf.get(key):
                failroots.update(lf[key]['xs'])
    kinds = {}
    for r in out.recs + out.post:
        kinds[r.kind] = kinds.get(r.kind, 0) + 1
        want = servers.ref(tree, r.x)
        if r.kind in ('value', 'error'):
            why = servers.match_outcome(want, r.kind, r.value)
            if why is not None:
                cross = _looks_like_crosstalk(r)
                sim.violation('outcome:' + ('assembled-from-or-delivered-to-another-request' if cross else 'differs-from-reference'),
                              {'request': r.brief(), 'why': why, 'want': repr(want)[:300]})
        elif r.kind == 'timeout':
            if r.timeout is None or r.timeout >= 50:
                sim.violation('outcome:request-never-answered', {'request': r.brief()})
            elif r.t1 - r.t0 < r.timeout * 0.99 - 1e-9:
                sim.violation('outcome:timeout-before-deadline', {'request': r.brief()})
        elif r.kind == 'full':
            # Without backpressure a request may legitimately give up after waiting ~its timeout even if a slot became free
            # meanwhile: on CPython 3.12.1 asyncio.Condition.notify() is lost when the woken waiter is cancelled or times out
            # at the same moment (fixed upstream later), and the statement promises no wake-up order. Only a request issued
            # when nobody else competes (post phase) must never be turned away.
            if not r.bp and r.via == 'post':
                sim.violation('outcome:rejected-although-the-server-is-idle', {'request': r.brief()})
            elif not r.bp and r.timeout is not None and r.timeout >= 50 and not any(
                    q is not r and (q.kind == 'cancelled' or (q.kind == 'full' and not q.bp)) and q.t1 is not None and r.t0 <= q.t1 < r.t1 - 1e-6 for q in out.recs):
                # nobody else left the wait queue while this request was waiting (no cancelled caller, no other waiter giving up earlier),
                # so no wake-up can have been swallowed by a leaving waiter: this request slept through ~100 virtual seconds although slots were returned
                sim.violation('outcome:waiter-never-woken-although-slots-were-returned', {'request': r.brief()})
        elif r.kind == 'abandoned':
            pass
        elif r.kind == 'cancelled':
            pass
        else:
            sim.violation('outcome:request-has-no-outcome', {'request': r.brief()})
    for lvl, name, msg in sim.logrecords:
        if 'not found in the backlog ledger' in msg:
            sim.violation('ledger:response-dropped-uid-not-found', {'msg': msg})
            break
    return kinds


def _ens_batchmate(r, failroots):
    try:
        ys = r.value.args[1]['y']
    except Exception:
        return False
    for s in ys:
        e = getattr(s, 'exc', s)
        if isinstance(e, BaseException):
            b = servers.exc_batch(e)
            if b is not None and r.x in b and any(x in failroots for x in b):
                return True
    return False


def _looks_like_crosstalk(r):
    v = r.value
    if r.kind != 'value':
        return False
    roots = set()

    def walk(v):
        if isinstance(v, int):
            roots.add(v)
        elif isinstance(v, (list, tuple)):
            for i in v:
                walk(i)

    walk(servers.norm_value(v))
    return bool(roots - {servers.root(r.x)})


def run(sim, sc):
    out = servers.run_scenario(sim, sc)
    if out.enter_exc is not None:
        sim.violation('server:enter-failed', {'exc': repr(out.enter_exc)})
        return {}
    kinds = check_outcomes(sim, sc, out)
    if out.backlog_end:
        sim.violation('ledger:not-empty-when-idle', {'backlog': out.backlog_end})
    return {'kinds': kinds}
