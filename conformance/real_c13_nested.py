"""Real-process reference for C13: a proxy stored inside a hosted dict/list must be released when the container is destroyed."""
import sys, time
sys.path.insert(0, '/repo/src')
sys.path.insert(0, '/verif')
from mpservice.multiprocessing.server_process import ServerProcess


def rc(m):
    time.sleep(0.3)
    return [(d['type'], d['refcount:']) for d in m._debug_info()]


if __name__ == '__main__':
    kind = sys.argv[1] if len(sys.argv) > 1 else 'dict'
    with ServerProcess() as m:
        c = m.dict() if kind == 'dict' else m.list()
        x = m.list()
        print('created', rc(m))
        if kind == 'dict':
            c['k'] = x
        else:
            c.append(x)
        print('stored', rc(m))
        del x
        print('dropped inner handle', rc(m))
        c.__len__()
        print('after one more call', rc(m))
        del c
        print('dropped container', rc(m))
