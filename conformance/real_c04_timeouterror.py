#!/venv/bin/python
"""Real threads/processes: a worker whose call() raises the builtin TimeoutError (e.g. from a client library it uses).
The caller must get that exception - not mpservice's own "... seconds enqueue, ... seconds total" timeout.   exit 1 if not."""
import asyncio
import sys

from mpservice.mpserver import Server, AsyncServer, ThreadServlet, ProcessServlet, Worker


class W(Worker):
    def call(self, x):
        if x == 1:
            raise TimeoutError('backend did not answer', x)
        return x * 2


def main():
    bad = 0
    for servlet_cls in (ThreadServlet, ProcessServlet):
        with Server(servlet_cls(W)) as server:
            try:
                server.call(1, timeout=30)
                got = 'returned'
            except Exception as e:
                got = (type(e).__module__ + '.' + type(e).__name__, e.args)
            print('Server     ', servlet_cls.__name__, '->', got)
            bad += got[1] != ('backend did not answer', 1)

        async def amain():
            async with AsyncServer(servlet_cls(W)) as server:
                try:
                    await server.call(1, timeout=30)
                    return 'returned'
                except Exception as e:
                    return (type(e).__module__ + '.' + type(e).__name__, e.args)
        got = asyncio.run(amain())
        print('AsyncServer', servlet_cls.__name__, '->', got)
        bad += got[1] != ('backend did not answer', 1)
    return 1 if bad else 0


if __name__ == '__main__':
    sys.exit(main())
