import sys; sys.path.insert(0, '/repo/src')
import time
"""Real-process reference for C13 (no simulator): prints the server-side reference count of one hosted list along a fixed history.
Expected with a correct implementation: 1, 1 (child that got the proxy as a Process argument has exited), 2 (in transit in a queue), 1, 2, 2, 1, (gone)."""
from mpservice.multiprocessing import Process, Queue
from mpservice.multiprocessing.server_process import ServerProcess

def child_args(p):
    p.append(1)
    return len(p)

def child_q(q):
    p = q.get()
    p.append(2)

if __name__ == '__main__':
    with ServerProcess() as m:
        lst = m.list()
        time.sleep(0.3)
        print('after create', m._debug_info())
        pr = Process(target=child_args, args=(lst,))
        pr.start(); print('child result', pr.result())
        time.sleep(0.3)
        print('after child(args) exit', m._debug_info())
        q = Queue()
        q.put(lst)
        time.sleep(0.2)
        print('in transit via queue', m._debug_info())
        pr = Process(target=child_q, args=(q,))
        pr.start(); pr.join()
        time.sleep(0.3)
        print('after child(q) exit', m._debug_info())
        import pickle
        s = pickle.dumps(lst)
        print('pickled once', m._debug_info())
        l2 = pickle.loads(s)
        print('unpickled', m._debug_info())
        del l2
        print('del copy', m._debug_info())
        del lst
        print('del orig', m._debug_info())
