#!/venv/bin/python
"""Real processes: a child killed by a signal, then result() / join() WITHOUT a timeout from the parent's main thread.
mpservice's result-collector thread polls `exitcode` (waitpid WNOHANG) concurrently with the main thread's blocking waitpid in join();
whoever reaps the child first wins, the other gets ECHILD, and for a moment `exitcode` is still None although join() has returned.
Counts how often result() raises TimeoutError (no timeout was given) instead of reporting the death.

usage: real_c12_waitpid_race.py [trials]     exit 1 if any spurious TimeoutError was seen"""
import os
import signal
import sys
import time

from mpservice.multiprocessing import Process
from mpservice._common import TimeoutError as MPTimeout


def target():
    time.sleep(60)


def main(n):
    spurious = 0
    other = {}
    for i in range(n):
        p = Process(target=target)
        p.start()
        time.sleep(0.3)
        os.kill(p.pid, signal.SIGKILL)
        try:
            p.result()
            k = 'returned'
        except MPTimeout:
            k = 'TimeoutError'
            spurious += 1
        except BaseException as e:
            k = type(e).__name__
        other[k] = other.get(k, 0) + 1
        try:
            p.join()
        except BaseException:
            pass
    print('outcomes of result() after SIGKILL:', other)
    return 1 if spurious else 0


if __name__ == '__main__':
    sys.exit(main(int(sys.argv[1]) if len(sys.argv) > 1 else 40))
