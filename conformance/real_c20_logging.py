"""Real-process confirmation driver for C20 findings (no simulator): run with /venv/bin/python.
usage: real_c20_logging.py <k> <size> <repeats> [timeout_s]
Prints how many repeats lost records / hung."""
import logging, sys, time, threading
sys.path.insert(0, '/repo/src')
from mpservice.multiprocessing import Process


def target(k, size):
    lg = logging.getLogger('harness.child')
    pad = 'x' * size
    for i in range(k):
        lg.warning('rec %d %s', i, pad)
    return 'fine'


class Rec(logging.Handler):
    def __init__(self):
        super().__init__(logging.DEBUG)
        self.got = []

    def emit(self, r):
        if r.name == 'harness.child':
            self.got.append(r.getMessage()[:12])


if __name__ == '__main__':
    k, size, reps = int(sys.argv[1]), int(sys.argv[2]), int(sys.argv[3])
    tmo = float(sys.argv[4]) if len(sys.argv) > 4 else 20
    root = logging.getLogger()
    root.setLevel(logging.DEBUG)
    lost = hung = 0
    for r in range(reps):
        rec = Rec()
        root.addHandler(rec)
        p = Process(target=target, args=(k, size))
        p.start()
        done = threading.Event()

        def j():
            try:
                p.join()
            finally:
                done.set()
        threading.Thread(target=j, daemon=True).start()
        if not done.wait(tmo):
            hung += 1
            p.kill()
            root.removeHandler(rec)
            continue
        time.sleep(0.05)
        root.removeHandler(rec)
        if len(rec.got) != k:
            lost += 1
            print('repeat', r, 'received', len(rec.got), 'of', k)
    print(f'k={k} size={size} repeats={reps} lost_in={lost} hung_in={hung}')
