"""Real-process confirmation of the C11 known finding: Server.__exit__ hangs when results of abandoned requests
exceed the output pipe capacity after the gather thread (or an ensemble/switch relay thread) stopped reading.
usage: real_c11_exit_hang.py [n_items] [item_bytes] [batch_size] [timeout_s]"""
import sys, threading, time
sys.path.insert(0, '/repo/src')
from mpservice.mpserver import Server, ProcessServlet, Worker


class W(Worker):
    def call(self, x):
        if self.batch_size:
            time.sleep(0.002)
            return list(x)
        time.sleep(0.002)
        return x


if __name__ == '__main__':
    n = int(sys.argv[1]) if len(sys.argv) > 1 else 400
    size = int(sys.argv[2]) if len(sys.argv) > 2 else 2000
    b = int(sys.argv[3]) if len(sys.argv) > 3 else 4
    tmo = float(sys.argv[4]) if len(sys.argv) > 4 else 30
    kw = {'batch_size': b, 'batch_wait_time': 0.001} if b > 1 else {}
    server = Server(ProcessServlet(W, cpus=2, **kw), capacity=n)
    done = threading.Event()

    def body():
        with server:
            for i, y in enumerate(server.stream(('x' * size for _ in range(n)), timeout=100)):
                if i == 1:
                    break
            t0 = time.time()
        print('exit returned after %.2fs' % (time.time() - t0))
        done.set()

    th = threading.Thread(target=body, daemon=True)
    th.start()
    if not done.wait(tmo):
        print(f'HANG: Server.__exit__ did not return within {tmo}s (n={n}, size={size}, batch={b})')
        import os
        os._exit(1)
    print('ok')
