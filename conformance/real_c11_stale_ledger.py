#!/venv/bin/python
"""Real threads, real clock: after an abandoned stream on a servlet with two workers, the first end marker stops the gather thread
while the other worker is still busy; its result is never collected, its ledger entry survives __exit__, and the re-entered server
has lost that slot for good (with capacity=1 it rejects everything).

usage: real_c11_stale_ledger.py          exit 1 if the re-entered server is unusable
"""
import sys
import time

from mpservice.mpserver import Server, ThreadServlet, Worker, ServerBacklogFull


class W(Worker):
    def call(self, x):
        time.sleep(0.3 if x == 8 else 0.001)
        return x * 2


def main():
    server = Server(ThreadServlet(W, num_threads=2), capacity=1)
    with server:
        it = server.stream([7, 8, 9], return_x=True, return_exceptions=True, timeout=10)
        for x, y in it:
            break
        time.sleep(0.05)  # 8 has been accepted and is being worked on
        it.close()
    print('backlog after exit:', server.backlog)
    with server:
        t0 = time.perf_counter()
        try:
            y = server.call(57, timeout=3, backpressure=False)
            print('second lifecycle: call(57) ->', y)
            return 0
        except ServerBacklogFull as e:
            print('second lifecycle: call(57) rejected after %.2f s: %r' % (time.perf_counter() - t0, e))
            return 1


if __name__ == '__main__':
    sys.exit(main())
