#!/venv/bin/python
"""Real processes: a target whose return value / exception payload cannot be pickled. Prints what each accessor reports, so the
simulated process model's behaviour for the same ending (checks/c12, c20: ending *_unpicklable) can be compared with the real system."""
import logging
import sys
import time

from mpservice.multiprocessing import Process, wait


def ret():
    logging.getLogger('child').warning('last record before return')
    return lambda: 1


def rai():
    logging.getLogger('child').warning('last record before raise')
    raise ValueError('boom', lambda: 1)


class H(logging.Handler):
    got = []

    def emit(self, r):
        if r.name == 'child':
            H.got.append(r.getMessage())


def main():
    logging.getLogger().addHandler(H())
    ok = True
    for fn in (ret, rai):
        p = Process(target=fn)
        p.start()
        t0 = time.time()
        d, nd = wait([p], timeout=30)
        out = {'wait_done': len(d), 'secs': round(time.time() - t0, 2)}
        for acc in ('join', 'result', 'exception'):
            try:
                out[acc] = repr(getattr(p, acc)())
            except BaseException as e:
                out[acc] = 'raised ' + type(e).__name__
        out['exitcode'] = p.exitcode
        print(fn.__name__, out)
        ok = ok and out['wait_done'] == 1 and out['join'].startswith('raised') and out['result'].startswith('raised')
    time.sleep(0.5)
    print('records', H.got)
    ok = ok and len(H.got) == 2
    return 0 if ok else 1


if __name__ == '__main__':
    sys.exit(main())
