#!/venv/bin/python
"""Regenerates MANIFEST.json from the check modules present (keeps it valid at all times)."""
import importlib, json, os, sys
HERE = os.path.dirname(os.path.abspath(__file__))
sys.path.insert(0, HERE)
props = [json.loads(l) for l in open(os.path.join(HERE, 'properties.jsonl'))]
NA = {
    'C15': 'pure function of its input (exception class x args x traceback x hop count): RemoteException wrapping/pickling involves no thread, clock, I/O, schedule or fault, so deterministic simulation has nothing to schedule or inject; see DESIGN.md section 5',
}

GENERIC = ('Seeded search, not enumeration: each run executes the real library code under a scheduler that owns every thread switch, timer, '
           'pipe/socket transfer and injected fault the property depends on; the oracle below is evaluated on every run; a violation is reported '
           'with a minimised, exactly replayable (scenario, decision list). A clean batch is evidence proportional to the reach the evidence file '
           'reports (distinct event-log digests, fault/probe counters), not a proof. This is the right level because the property quantifies over '
           'all interleavings / histories / crash points of code with real threads and processes, which no test can sample on purpose and no '
           'exhaustive method here can cover for the unmodified implementation. ')
ASSURANCE = {
    'C01': 'Oracle: output sequence equals the sequential reference (f applied to each input once, in input order; exceptions in place when return_exceptions; first failure ends the stream after all earlier outputs); every input processed at most once; no deadlock.',
    'C02': 'Oracle: every request (call or streamed) gets exactly the reference value/exception of its own input through the whole servlet tree (batching, ensembles, switches, process boundary); no answer assembled from or delivered to another request; nothing dropped by the ledger.',
    'C03': 'Oracle: the consumed prefix and the terminal exception equal a sequential reference interpreter of the same operator chain (the lazy and the operator-at-a-time reading where the documentation leaves it open); drains and peeks report reference counts.',
    'C04': 'Fault = which requests fail, where (preprocess / call / which stage / which ensemble members). Oracle: exactly the planned requests (and, for batched calls, exactly their actual batch-mates from the call log) fail, with the injected class and args; EnsembleError exactly by the documented rule.',
    'C05': 'Fault = consumer stop (break / close / drop+GC) at any position, failure of any stage at any position, StopRequested from a stoppable source. Oracle: reference prefix, then that first failure exactly once; run never deadlocks; no helper thread, executor thread or (simulated) worker process of the pipeline alive once the iterator is closed.',
    'C06': 'Invariant at EVERY scheduler step: backlog <= capacity. History oracle: ServerBacklogFull with backpressure only if the server was full at some step since the call, immediate, leaves no trace; waits bounded by the timeout; idle => backlog 0, also after leaving the context with work in flight.',
    'C07': 'Fault = deadlines and early stream closes placed around the service time (racy clock), caller cancellation. Oracle: the abandoning caller gets TimeoutError; every other and every later request gets its reference answer; helper threads survive until exit; exit returns.',
    'C08': 'Invariant at every source pull and scheduler step: pulled - delivered <= the documented look-ahead bound, running invocations <= concurrency; nothing runs after close() returned; holds for every producer/consumer speed ratio the scheduler can produce.',
    'C09': 'Worker.run driven directly with 1-3 competing workers. Oracle: every call argument is a non-empty list of <= batch_size valid inputs (a single value when batch_size is 0); rejected / pre-failed elements never reach call; every accepted input is in exactly one batch and gets exactly one correct output; a request is served without more input arriving and (exact clock) within batch_wait_time of the first element of its batch; every worker forwards the end marker.',
    'C10': 'Oracle: tee pulls nothing at construction; the source is pulled exactly once per element and (invariant at every scheduler step) never more than buffer_size+2 elements beyond the slowest fork; each fork yields the same elements and ends the same way as the source (same failure at the same position); no fork waits forever for another (deadlock / no-progress verdict), for every relative speed and stop pattern of the forks and a failing source.',
    'C11': 'Fault = which worker (leaf, index) fails to initialise, in which enter/exit cycle; workload histories incl. abandoned bulky streams. Oracle: enter raises that error and leaves no thread/process; exit returns within bounded virtual time with all library threads and simulated processes gone; the same object works again (backlog 0 on re-entry, reference answers). The fail site is drawn uniformly from all (leaf, worker index) sites of the generated tree, the failing cycle from all cycles: sampled, not enumerated.',
    'C12': 'Fault = how the target ends: return, raise (classes incl. unpicklable / multi-arg), sys.exit(codes), kill at arbitrary points incl. mid-message. Oracle: result/exception/exitcode/join/done/wait report exactly that outcome and never hang.',
    'C13': 'Reference model of per-object reference counts over creation, copying, pickling to children, nesting, drop and GC in parent and (simulated) client/child processes; GC and finalizer timing, client-process exits and thread switches chosen by the seed. Oracle: hosted object alive iff the model says some proxy refers to it; destroyed exactly once after the last goes.',
    'C14': 'Oracle: results, attribute access and state changes through a proxy equal the same operations on a local twin; errors are raised in the caller (not returned) with class, args and server-side traceback text; with concurrent callers in several threads / (simulated) processes no update is lost or duplicated, per-process order is preserved and the final state equals the reference; managed() results behave as proxies.',
    'C16': 'Same generated workload run through the sync and the async variant under independent schedules. Oracle: identical outputs, failures and submission side-effects.',
    'C17': 'Oracle over the history of an IterableQueue shared by n suppliers and m consumers (threads and simulated processes): every item delivered exactly once and none left behind, every consumer iteration ends after the last supplier finished, renew() resets for a clean next round, a stop request raises StopRequested in blocked parties within the polling interval.',
    'C18': 'Transport faults: writes fragmented at arbitrary byte positions, delays, slow data iterables, callers giving up (response_timeout), id reuse. Oracle: every echo / raising / no-argument request gets the outcome of its own request; stream responses arrive complete and in order; a late response never reaches a later request; the server shuts down; the pipe transport delivers everything, in order, to the other side.',
    'C19': 'Oracle: concatenation of batches equals the input; sizes 1..batch_size; a short batch only if nothing further arrived before first-item time + batch_wait_time; in exact-time runs emission happens exactly at min(deadline, marker).',
    'C20': 'Oracle: every record logged by a (simulated) child and its threads reaches the parent handler exactly once, in per-thread order, before join()/result() returns, also for children that exit by exception/sys.exit and with more records than the pipe holds; timed-out accessors lose nothing.',
}
checks = []
na = []
for p in props:
    pid = p['id']
    mod = None
    for fn in sorted(os.listdir(os.path.join(HERE, 'checks'))):
        if fn.lower().startswith(pid.lower() + '_') and fn.endswith('.py'):
            mod = importlib.import_module('checks.' + fn[:-3])
    if pid in NA:
        na.append({'property_id': pid, 'reason': NA[pid]})
        continue
    if mod is None:
        na.append({'property_id': pid, 'reason': 'check not built yet in this round (planned: DESIGN.md section 4); not claimed until it exists'})
        continue
    checks.append({
        'property_id': pid,
        'quick_cmd': f'./check {pid} quick',
        'thorough_cmd': f'./check {pid} thorough',
        'evidence_file': f'/verif/evidence/{pid}.json',
        'replay_cmd_template': f'./check {pid} --replay {{path}}',
        'engine': 'detsim',
        'level_claimed': {'category': mod.LEVEL, 'text': GENERIC + ASSURANCE[pid] + ' Explored space: ' + mod.RULE, 'design_ref': 'DESIGN.md section 4, ' + pid},
        'level_note': getattr(mod, 'LEVEL_NOTE', 'trusted base: the simulator (sim/core.py, sim/threads.py' + (', sim/aio.py' if 'aio' in mod.NEEDS else '') + (', sim/osproc.py - a model of pipes/processes/semaphores' if 'proc' in mod.NEEDS else '') + '), the oracle in the check module, CPython 3.12.1; real mpservice code runs unmodified from /repo/src; sampling, not enumeration'),
        'technique': getattr(mod, 'TECHNIQUE', 'deterministic simulation: real mpservice code on baton-passed threads under a seeded scheduler with virtual time and injected faults; oracle over the recorded history; seeded search, minimised replay files'),
    })
m = {
    'version': 1,
    'setup_cmd': '/venv/bin/python -c "import sys; sys.path.insert(0, \'/repo/src\'); import mpservice, json, hashlib"',
    'hooks': {
        'guard': 'MPSERVICE_VERIF',
        'enable': 'none needed: every seam is a harness-side monkeypatch of stdlib/module attributes installed in a fresh interpreter before mpservice is imported from /repo/src (see DESIGN.md 3.2); no hook exists in /repo',
        'baseline_off_cmd': 'cd /repo && /venv/bin/python -m pytest -ra -q -p no:cacheprovider --timeout=900 --continue-on-collection-errors',
        'source_commits': [],
        'add_only': True,
    },
    'engines': [{'name': 'detsim', 'path': '/verif/sim', 'serves_properties': [c['property_id'] for c in checks],
                 'kind_free_text': 'deterministic simulation with fault injection: seeded baton-passing scheduler over real threads, virtual clock, simulated asyncio selector / stream transports / OS process boundary, decision-stream replay and delta-debugging minimiser'}],
    'checks': checks,
    'not_applicable': na,
    'notes': 'Each check runs the code in /repo/src (or $VERIF_REPO_SRC) directly; nothing is built. Exit 0 held / 1 VIOLATION / 2 harness problem. Known findings: /verif/KNOWN_FINDINGS.jsonl.',
}
json.dump(m, open(os.path.join(HERE, 'MANIFEST.json'), 'w'), indent=1)
print('claimed', [c['property_id'] for c in checks], 'n/a', [n['property_id'] for n in na])
