#!/venv/bin/python
"""Regenerates MANIFEST.json from the check modules present (keeps it valid at all times)."""
import importlib, json, os, sys
HERE = os.path.dirname(os.path.abspath(__file__))
sys.path.insert(0, HERE)
props = [json.loads(l) for l in open(os.path.join(HERE, 'properties.jsonl'))]
NA = {
    'C15': 'pure function of its input (exception class x args x traceback x hop count): RemoteException wrapping/pickling involves no thread, clock, I/O, schedule or fault, so deterministic simulation has nothing to schedule or inject; see DESIGN.md section 5',
}
checks = []
na = []
for p in props:
    pid = p['id']
    mod = None
    for fn in sorted(os.listdir(os.path.join(HERE, 'checks'))):
        if fn.lower().startswith(pid.lower() + '_') and fn.endswith('.py'):
            mod = importlib.import_module('checks.' + fn[:-3])
    if pid in NA:
        na.append({'property_id': pid, 'reason': NA[pid]})
        continue
    if mod is None:
        na.append({'property_id': pid, 'reason': 'check not built yet in this round (planned: DESIGN.md section 4); not claimed until it exists'})
        continue
    checks.append({
        'property_id': pid,
        'quick_cmd': f'./check {pid} quick',
        'thorough_cmd': f'./check {pid} thorough',
        'evidence_file': f'/verif/evidence/{pid}.json',
        'replay_cmd_template': f'./check {pid} --replay {{path}}',
        'engine': 'detsim',
        'level_claimed': {'category': mod.LEVEL, 'text': mod.LEVEL_TEXT if hasattr(mod, 'LEVEL_TEXT') else mod.RULE, 'design_ref': 'DESIGN.md section 4, ' + pid},
        'level_note': getattr(mod, 'LEVEL_NOTE', 'trusted base: the simulator (sim/core.py, sim/threads.py' + (', sim/aio.py' if 'aio' in mod.NEEDS else '') + (', sim/osproc.py - a model of pipes/processes/semaphores' if 'proc' in mod.NEEDS else '') + '), the oracle in the check module, CPython 3.12.1; real mpservice code runs unmodified from /repo/src; sampling, not enumeration'),
        'technique': getattr(mod, 'TECHNIQUE', 'deterministic simulation: real mpservice code on baton-passed threads under a seeded scheduler with virtual time and injected faults; oracle over the recorded history; seeded search, minimised replay files'),
    })
m = {
    'version': 1,
    'setup_cmd': '/venv/bin/python -c "import sys; sys.path.insert(0, \'/repo/src\'); import mpservice, json, hashlib"',
    'hooks': {
        'guard': 'MPSERVICE_VERIF',
        'enable': 'none needed: every seam is a harness-side monkeypatch of stdlib/module attributes installed in a fresh interpreter before mpservice is imported from /repo/src (see DESIGN.md 3.2); no hook exists in /repo',
        'baseline_off_cmd': 'cd /repo && /venv/bin/python -m pytest -ra -q -p no:cacheprovider --timeout=900 --continue-on-collection-errors',
        'source_commits': [],
        'add_only': True,
    },
    'engines': [{'name': 'detsim', 'path': '/verif/sim', 'serves_properties': [c['property_id'] for c in checks],
                 'kind_free_text': 'deterministic simulation with fault injection: seeded baton-passing scheduler over real threads, virtual clock, simulated asyncio selector / stream transports / OS process boundary, decision-stream replay and delta-debugging minimiser'}],
    'checks': checks,
    'not_applicable': na,
    'notes': 'Each check runs the code in /repo/src (or $VERIF_REPO_SRC) directly; nothing is built. Exit 0 held / 1 VIOLATION / 2 harness problem. Known findings: /verif/KNOWN_FINDINGS.jsonl.',
}
json.dump(m, open(os.path.join(HERE, 'MANIFEST.json'), 'w'), indent=1)
print('claimed', [c['property_id'] for c in checks], 'n/a', [n['property_id'] for n in na])
