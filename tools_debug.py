#!/venv/bin/python
"""ad-hoc: replay a file in-process and dump server state at the verdict"""
import sys, json, os
sys.path.insert(0, '/verif')
from sim import runner, core
prop = sys.argv[1]
check = runner.load_check(prop)
runner.setup(check.NEEDS)
doc = json.load(open(sys.argv[2]))
case = {'property': prop, 'seed': doc['seed'], 'scenario': doc['scenario'], 'sim': doc['sim'], 'decisions': doc['decisions']}
from checks import servers
orig_finish = core.Sim.finish
def finish(self, verdict):
    if self.verdict is None:
        import gc
        print('VERDICT', verdict[:2], file=sys.stderr)
        print('LOG', servers.LOG, file=sys.stderr)
        print('logrecs', self.logrecords, file=sys.stderr)
        from mpservice.mpserver import AsyncServer, Server
        from mpservice._queues import SingleLane
        for o in gc.get_objects():
            if isinstance(o, (AsyncServer, Server)):
                print('ledger', o._uid_to_futures, file=sys.stderr)
                try:
                    print('qout', list(o._q_out._queue), 'qin', list(o._q_in._queue), file=sys.stderr)
                except Exception as e: print(e, file=sys.stderr)
            if isinstance(o, SingleLane):
                print('SingleLane', o.maxsize, list(o._queue), file=sys.stderr)
        for r in getattr(self, 'dbg_recs', []):
            print(r.brief(), file=sys.stderr)
    return orig_finish(self, verdict)
core.Sim.finish = finish
orig_run = servers.run_sync
res = runner.execute(check, case, trace='-t' in sys.argv)
if '-t' in sys.argv:
    for l in res['trace'][-int(os.environ.get('N', '100')):]: print(l)
print(res['cls'], res['verdict'], [v[0] for v in res['violations']])
