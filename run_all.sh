#!/bin/bash
# usage: run_all.sh quick|thorough [jobs]   : runs every claimed check, prints one summary line each
TIER=${1:-quick}; JOBS=${2:-}
cd /verif
for id in $(/venv/bin/python -c "import json;print(' '.join(c['property_id'] for c in json.load(open('MANIFEST.json'))['checks']))"); do
  s=$(date +%s)
  out=$(./check $id $TIER ${JOBS:+--jobs $JOBS} 2>&1; echo "RC=$?")
  rc=$(echo "$out" | sed -n 's/^RC=//p' | tail -1)
  e=$(date +%s)
  echo "$id rc=$rc $((e-s))s :: $(echo "$out" | grep "^\[$id" | cut -c1-160)"
  echo "$out" | grep "^VIOLATION\|^KNOWN-FINDING\|^HARNESS" | cut -c1-220
done
