#!/venv/bin/python
"""Confirm an independently written breaking change and run the checks against it.
usage: tools_seeded.py /tmp/seeded/C04-1 [PROP ...]     (PROP defaults to the id prefix; extra props are also run)
Steps: fresh scratch worktree of /repo -> git apply patch -> demo must fail with it and pass on /repo -> run ./check PROP quick
with VERIF_REPO_SRC pointing at the patched copy -> store under /verif/seeded/<id>/ with meta.json -> remove the worktree."""
import json, os, shutil, subprocess, sys, time

src = sys.argv[1].rstrip('/')
sid = os.path.basename(src)
props = sys.argv[2:] or [sid.split('-')[0]]
wt = f'/tmp/sv/{sid}'
os.makedirs('/tmp/sv', exist_ok=True)
subprocess.run(['git', '-C', '/repo', 'worktree', 'remove', '--force', wt], capture_output=True)
r = subprocess.run(['git', '-C', '/repo', 'worktree', 'add', '-q', '--detach', wt, 'HEAD'], capture_output=True, text=True)
meta = {'id': sid, 'breaks_property': props[0], 'repo_head': subprocess.run(['git', '-C', '/repo', 'rev-parse', '--short', 'HEAD'], capture_output=True, text=True).stdout.strip()}
try:
    r = subprocess.run(['git', '-C', wt, 'apply', os.path.join(src, 'patch.diff')], capture_output=True, text=True)
    meta['patch_applies'] = r.returncode == 0
    if r.returncode != 0:
        print('PATCH DOES NOT APPLY', r.stderr[:500])
    else:
        def demo(path):
            env = dict(os.environ, PYTHONPATH=path)
            t0 = time.time()
            try:
                p = subprocess.run(['/venv/bin/python', os.path.join(src, 'demo.py')], env=env, capture_output=True, text=True, timeout=300, cwd='/tmp')
                return p.returncode, round(time.time() - t0, 1), (p.stdout + p.stderr)[-400:]
            except subprocess.TimeoutExpired:
                return 'timeout', 300, ''
        rc_bad, t_bad, out_bad = demo(wt + '/src')
        rc_ok, t_ok, out_ok = demo('/repo/src')
        meta['demo_with_change'] = {'exit': rc_bad, 'seconds': t_bad, 'tail': out_bad}
        meta['demo_without_change'] = {'exit': rc_ok, 'seconds': t_ok}
        meta['demo_confirms'] = (rc_bad not in (0,)) and rc_ok == 0
        print('demo with change exit', rc_bad, 'without', rc_ok, '=> confirms' if meta['demo_confirms'] else '=> NOT CONFIRMED')
        meta['checks'] = {}
        for prop in props:
            env = dict(os.environ, VERIF_REPO_SRC=wt + '/src', VERIF_NO_EVIDENCE='1')
            env.pop('VERIF_REEXEC', None)
            t0 = time.time()
            p = subprocess.run(['/verif/check', prop, 'quick'] + (['--jobs', os.environ['JOBS']] if os.environ.get('JOBS') else []), env=env, capture_output=True, text=True, cwd='/verif')
            lines = [l for l in p.stdout.splitlines() if l.startswith(('VIOLATION', 'KNOWN-FINDING', '[', 'HARNESS'))]
            sigs = []
            for l in lines:
                if l.startswith('VIOLATION'):
                    path = l.split('replay=')[1]
                    try:
                        sigs.append(json.load(open(path))['violation']['signature'])
                    except Exception:
                        pass
            meta['checks'][prop] = {'exit': p.returncode, 'seconds': round(time.time() - t0, 1), 'signatures': sigs, 'summary': [l[:200] for l in lines if l.startswith('[')]}
            print(prop, 'exit', p.returncode, 'signatures', sigs)
        meta['caught_by'] = [p for p, v in meta['checks'].items() if v['exit'] == 1]
finally:
    subprocess.run(['git', '-C', '/repo', 'worktree', 'remove', '--force', wt], capture_output=True)
dst = f'/verif/seeded/{sid}'
os.makedirs(dst, exist_ok=True)
for f in ('patch.diff', 'demo.py', 'notes.md'):
    if os.path.exists(os.path.join(src, f)) and os.path.abspath(src) != os.path.abspath(dst):
        shutil.copy(os.path.join(src, f), os.path.join(dst, f))
try:
    notes = open(os.path.join(src, 'notes.md')).read()
except Exception:
    notes = ''
meta['needs_to_manifest'] = notes[:1500]
meta['what_was_run'] = ['git apply patch.diff on a fresh worktree of /repo HEAD', 'demo.py with PYTHONPATH=<patched>/src and with /repo/src',
                        './check <prop> quick with VERIF_REPO_SRC=<patched>/src for: ' + ', '.join(props)]
# a change that later repairs have made stale keeps the record of the tree it was written for
try:
    prev = json.load(open(os.path.join(dst, 'meta.json')))
except Exception:
    prev = None
if prev and prev.get('status_on_final_tree') and (not meta.get('patch_applies') or not meta.get('demo_confirms')):
    prev['rechecked_on'] = {'repo_head': meta['repo_head'], 'patch_applies': meta.get('patch_applies'), 'demo_confirms': meta.get('demo_confirms')}
    meta = prev
json.dump(meta, open(os.path.join(dst, 'meta.json'), 'w'), indent=1)
print('stored', dst, 'caught_by', meta.get('caught_by'))
